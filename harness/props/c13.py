"""C13 — closing an IOStream settles every pending operation exactly once.

Uses the driver of harness/props/c11.py (Session: the real BaseIOStream / IOStream.connect over
the scripted FakeIOStream transport, every future settlement / add_callback / close_fd logged
in true order) and the shared Gallina model coq/C11/Model.v.

Generator: base programs (reads of all five kinds, writes with partial-send scripts, connect,
close callback, arrivals, readiness events) x a close inserted at every position x every close
cause, followed by probes (write, connect, reads, runcb, second close)."""
import json
import re

from harness.gallina import Tag  # noqa: F401  (observables contain Tags)
from harness.props.c11 import (run_program, coq_input, Session, mkcase, eff_cfg, plan_read,  # noqa: F401
                               split_pattern, s_, b, outcomes, shrink, RE_POOL, ALPH, READ, WRITE)
from harness.props import c11_oracle as O11

ID = "C13"
COQ_DIRS = ["C11", "C13"]
PROPERTY_FILE = "C13/Property.v"
RUN_IMPORTS = "From TV Require Import C11.Model C11.Trace C13.Run."
RUN_FN = "run_case"
CHECK_FN = "check_case"
INPUT_TYPE = "input"

run_impl = run_program

EV_R = ["event", True, False, False, False, False]
EV_W = ["event", False, True, False, False, False]
EV_RW = ["event", True, True, False, False, False]


# ---------------------------------------------------------------- live construction
class Live:
    """A program under construction, executed on the real stream as it is built so that the
    generator can see what is pending / buffered / listening at each point."""

    def __init__(self, chunk, maxbuf, maxw=None):
        self.chunk, self.maxbuf = eff_cfg(chunk, maxbuf)
        self.maxw = maxw
        self.sess = Session(self.chunk, self.maxbuf, maxw)
        self.ops = []
        self.req = {}

    def do(self, op):
        op = json.loads(json.dumps(op))
        self.ops.append(op)
        n0 = self.sess.nfut
        try:
            rec = self.sess.do(op)
        except Exception:   # noqa: BLE001 — an exception class the driver does not know (only on a broken stream
            rec = None      # implementation): keep the op; run_impl will report the HarnessException for this case
        if op[0] == "read" and self.sess.nfut > n0:
            self.req[n0] = op[1]
        return rec

    def run(self, ops):
        for op in ops:
            self.do(op)

    def finish(self):
        self.sess.finish()

    @property
    def closed(self):
        return bool(self.sess.s.closed())

    def listening(self):
        st = self.sess.s._state
        return (False, False, False) if st is None else (True, bool(st & READ), bool(st & WRITE))

    def reading(self):
        return self.sess.s._read_future is not None

    def pending_req(self):
        f = self.sess.s._read_future
        return None if f is None else self.req.get(f.fid)

    def connecting(self):
        return bool(self.sess.s._connecting)

    def rbs(self):
        return self.sess.s._read_buffer_size

    def buffered(self):
        s = self.sess.s
        return bytes(s._read_buffer[:s._read_buffer_size])

    def case(self, **extra):
        c = {"chunk": self.chunk, "maxbuf": self.maxbuf, "maxw": self.maxw, "ops": self.ops}
        c.update(extra)
        return c


def rand_bytes(rng, n, alph=ALPH):
    return bytes(rng.choice(alph) for _ in range(n))


# ---------------------------------------------------------------- base programs
def gen_base(rng, napp, budget=11):
    """(chunk, maxw, ops): <= napp application ops (+ the arrivals / readiness events that feed them)"""
    chunk = rng.choice([1, 1, 2, 3, 4, 8, 64])
    maxw = rng.choice([None] * 6 + [4, 16])
    L = rng.choice([0, 2, 4, 6, 9, 14, 20, 30])
    data = rand_bytes(rng, L)
    pos = [0]
    wtotal = [0]
    live = Live(chunk, 4096, maxw)

    def consumed():
        n = 0
        for e in live.sess.events:
            if isinstance(e, list) and e[0] == "done":
                o = e[2]
                if isinstance(o, bytes):
                    n += len(o)
                elif isinstance(o, list) and o[0] == "int":
                    n += o[1]
        return n

    def arrive():
        if pos[0] >= L:
            return False
        k = rng.choice([1, 1, 2, 3, 5, 8, L])
        piece = data[pos[0]:pos[0] + k]
        pos[0] += len(piece)
        live.do(["arrive", ["data", s_(piece)]])
        return True

    try:
        if rng.random() < 0.3:
            live.do(["connect", False])
        for _ in range(napp):
            if live.closed or len(live.ops) >= budget:
                break
            k = rng.random()
            if k < 0.34:
                live.do(["read", plan_read(rng, data[min(L, consumed()):], False)])
                for _ in range(rng.choice([0, 0, 1, 1, 2])):
                    if len(live.ops) >= budget:
                        break
                    if arrive() and rng.random() < 0.8:
                        live.do(EV_R)
            elif k < 0.62:
                if rng.random() < 0.45:
                    live.do(["script", rng.choice([["accept", 0], ["accept", 1], ["accept", 2], ["accept", 5], ["block"]])])
                n = rng.choice([0, 1, 2, 3, 5, 9, 17, 40, 60]) if rng.random() < 0.95 else 300
                n = min(n, 1400 - wtotal[0])
                wtotal[0] += n
                live.do(["write", s_(rand_bytes(rng, n, b"wxyz"))])
                if rng.random() < 0.3:
                    live.do(EV_W)
            elif k < 0.72:
                live.do(["setcb"])
            elif k < 0.84:
                if arrive():
                    if rng.random() < 0.7:
                        live.do(EV_R)
                else:
                    live.do(EV_R)
            elif k < 0.89:
                live.do(["runcb"])
            else:
                live.do(rng.choice([EV_W, EV_W, EV_RW]))
        ops = live.ops
        if live.closed and ops:
            ops = ops[:-1]          # keep the base open: the close comes from the inserted cause
    finally:
        live.finish()
    return chunk, maxw, ops


def hand_bases():
    A = lambda x: ["arrive", ["data", x]]
    R = lambda *r: ["read", list(r)]
    W = lambda x: ["write", x]
    return [
        (64, None, [R("until", "\r\n", None), A("ab"), EV_R, A("\r"), EV_R]),
        (64, None, [["connect", False], W("hello"), EV_W, R("bytes", 3, False), A("abcd"), EV_R]),
        (64, None, [["script", ["accept", 2]], W("hello"), ["script", ["block"]], EV_W, W("xy"), EV_W]),
        (64, None, [["setcb"], R("uclose"), A("abc"), EV_R, ["runcb"]]),
        (64, None, [A("ab"), R("into", 5, False), A("c"), EV_R, A("de"), EV_R]),
        (1, None, [R("regex", RE_POOL[0], None), A("a\r\n"), EV_R, A("\r\nb"), EV_R]),
        (1, None, [R("until", "\n", None), A("ab\n"), EV_R, R("bytes", 1, False)]),
        (64, None, [["connect", False], ["setcb"], W("abc"), R("bytes", 4, False), A("ab")]),
        (2, 8, [W("abc"), R("bytes", 10, True), A("xyz"), EV_R, R("until", "z", 5)]),
        (64, None, [A("abcdef"), R("bytes", 2, False), ["setcb"], R("until", "e", None), W("q")]),
        (64, None, [["script", ["block"]], W("aaaa"), W("bb"), R("bytes", 1, False), EV_W, A("x"), EV_R]),
        (2, None, [R("until", "\n", 4), A("ab"), EV_R, A("c\n"), EV_R]),
        (1, None, [["setcb"], R("regex", RE_POOL[1], None), A("abab\n"), ["script", ["accept", 1]], W("wxyz")]),
    ]


# ---------------------------------------------------------------- close causes
def causes(rng, both):
    out = [("Local",), ("LocalExc",), ("Eof",), ("Reset",), ("Err",)]
    if both:
        out += [("ErrorEvent", False), ("ErrorEvent", True), ("WriteError", False), ("WriteError", True)]
    else:
        out += [("ErrorEvent", rng.random() < 0.5), ("WriteError", rng.random() < 0.5)]
    out += [("ConnectError",), ("Unsatisfiable",), ("BufferFull",)]
    return out


def force_read_side(live, rng):
    """deliver READ readiness (or, when nothing listens, an inline read) until the scripted
    EOF / error / overflow has been seen"""
    for _ in range(4):
        if live.closed:
            return
        _, lr, _ = live.listening()
        if lr:
            live.do(EV_R if rng.random() < 0.8 else EV_RW)
        elif not live.reading():
            live.do(["read", rng.choice([["bytes", 999, False], ["bytes", 999, False], ["uclose"], ["until", "\x00", None],
                                         ["into", 50, False], ["bytes", 3, True], ["regex", RE_POOL[0], None]])])
        else:
            return


def apply_cause(live, cause, rng):
    """append the ops that close the stream for `cause`; False if the cause is not applicable here"""
    kind = cause[0]
    if kind == "Local":
        live.do(["close", False])
    elif kind == "LocalExc":
        live.do(["close", True])
    elif kind in ("Eof", "Reset", "Err"):
        any_, lr, _ = live.listening()
        if not lr and not live.reading() and live.rbs() == 0 and rng.random() < 0.5:
            live.do(["setcb"])
        live.do(["arrive", ["eof"] if kind == "Eof" else ["err", kind == "Reset"]])
        force_read_side(live, rng)
    elif kind == "ErrorEvent":
        any_, lr, _ = live.listening()
        if not any_:
            if live.rbs() == 0 and rng.random() < 0.5:
                live.do(["setcb"])
            elif not live.reading():
                live.do(["read", ["bytes", live.rbs() + 7, False]])
        live.do(["event", rng.random() < 0.5, False, True, False, bool(cause[1])])
        if rng.random() < 0.75:     # otherwise the deferred close runs later (the probes end with runcb)
            live.do(["runcb"])
    elif kind == "WriteError":
        live.do(["script", ["err", bool(cause[1])]])
        for _ in range(4):
            if live.closed:
                break
            _, _, lw = live.listening()
            if lw:
                live.do(EV_W if rng.random() < 0.8 else EV_RW)
            else:
                live.do(["write", s_(rand_bytes(rng, rng.choice([1, 2, 6]), b"wxyz"))])
    elif kind == "ConnectError":
        if live.connecting():
            live.do(["event", rng.random() < 0.3, True, False, True, False])
        else:
            live.do(["connect", True])
    elif kind == "Unsatisfiable":
        req = live.pending_req()
        if live.reading():
            if req is None or req[0] not in ("until", "regex") or req[2] is None:
                return False
            live.do(["arrive", ["data", "q" * (req[2] + 2)]])
            force_read_side(live, rng)
        else:
            style = rng.random()
            if style < 0.4:
                # pending delimiter read with max_bytes, made unsatisfiable by a later arrival
                mx = live.rbs() + rng.choice([0, 1, 3])
                r = ["until", "z", mx] if rng.random() < 0.6 else ["regex", [[False, False, "z"]], mx]
                live.do(["read", r])
                if not live.closed:
                    live.do(["arrive", ["data", s_(rand_bytes(rng, mx - live.rbs() + rng.choice([1, 2, 4])))]])
                    force_read_side(live, rng)
            else:
                if live.rbs() == 0 or rng.random() < 0.4:
                    live.do(["arrive", ["data", s_(rand_bytes(rng, rng.choice([1, 2, 5])))]])
                tot = live.rbs() + sum(len(x) for x in live.sess.s.incoming if isinstance(x, (bytes, bytearray)))
                mx = rng.randrange(0, max(1, tot))
                r = ["until", "z", mx] if rng.random() < 0.6 else ["regex", [[False, False, "z"]], mx]
                live.do(["read", r])
                force_read_side(live, rng)
    elif kind == "BufferFull":
        room = live.maxbuf - live.rbs()
        live.do(["arrive", ["data", s_(rand_bytes(rng, room + rng.choice([1, 1, 2, 5])))]])
        force_read_side(live, rng)
    else:
        raise ValueError(cause)
    return True


def add_probes(live, rng):
    seq = ["read"] * rng.randrange(1, 4) + ["write", "connect"]
    if rng.random() < 0.5:
        rng.shuffle(seq)
    if rng.random() < 0.2:
        seq.insert(rng.randrange(len(seq) + 1), "setcb")
    if rng.random() < 0.2:
        seq.insert(rng.randrange(len(seq) + 1), "event")
    for x in seq:
        if x == "read":
            live.do(["read", plan_read(rng, live.buffered(), True)])
        elif x == "write":
            live.do(["write", s_(rand_bytes(rng, rng.choice([0, 1, 3]), b"pq"))])
        elif x == "connect":
            # connect() twice on an OPEN stream is API misuse (the first future is dropped): only probe a closed stream
            if live.closed or not any(op[0] == "connect" for op in live.ops):
                live.do(["connect", False])
        elif x == "setcb":
            live.do(["setcb"])
        else:
            live.do(rng.choice([EV_RW, ["event", True, True, True, False, True]]))
    live.do(["runcb"])
    live.do(["close", False])
    live.do(["runcb"])


def build(rng, chunk, maxw, base, p, cause):
    maxbuf = 4096
    if cause[0] == "BufferFull":
        arrived = sum(len(op[1][1]) for op in base[:p] if op[0] == "arrive" and op[1][0] == "data")
        maxbuf = max(2, arrived + rng.choice([0, 1, 3]))
    live = Live(chunk, maxbuf, maxw)
    try:
        live.run(base[:p])
        if not apply_cause(live, cause, rng):
            return None
        live.run(base[p:])
        add_probes(live, rng)
        label = cause[0] + ("" if len(cause) == 1 else ":fderr" if cause[0] == "ErrorEvent" and cause[1] else
                            ":reset" if cause[0] == "WriteError" and cause[1] else "")
        return live.case(cause=label, pos=p)
    finally:
        live.finish()


def gen_write_close(rng, tier):
    """(1) zero-length writes queued behind a pending connect, then a close for every cause;
       (2) several writes queued behind a blocked socket, one writable event flushes the earlier write(s)
           completely (or almost) and the next send of the same pass fails."""
    out = []
    W = lambda x: ["write", x]
    word = lambda: s_(bytes(rng.choice(b"pqrs") for _ in range(rng.randrange(1, 6))))
    n1 = 14 if tier == "quick" else 120
    closes = [[["close", False]], [["close", True]], [["event", False, True, False, True, False]],
              [["event", True, True, True, False, True], ["runcb"]], [["event", False, False, True, False, False], ["runcb"]],
              [["read", ["bytes", 2, False]], ["arrive", ["eof"]], EV_R], [["read", ["until", "x", 1]], ["arrive", ["data", "abc"]], EV_R],
              [["read", ["bytes", 1, False]], ["arrive", ["err", True]], EV_R]]
    for i in range(n1):
        ops = []
        if rng.random() < 0.4:
            ops.append(["setcb"])
        ops.append(["connect", False])
        ops.append(W(""))
        k = rng.random()
        if k < 0.3:
            ops.append(W(""))
        elif k < 0.55:
            ops.append(W(word()))
        ops += closes[i % len(closes)]
        ops += [["runcb"], W("z"), ["close", False], ["runcb"]]
        out.append(mkcase(rng.choice([4, 64]), 4096, ops))
    n2 = 30 if tier == "quick" else 300
    for i in range(n2):
        ws = [word() for _ in range(rng.randrange(2, 5))]
        ops = []
        if rng.random() < 0.3:
            ops.append(["setcb"])
        if rng.random() < 0.25:
            ops += [["connect", False], EV_W]
        for w in ws:                                            # each write() tries one send: block them all
            ops += [["script", ["block"]], W(w)]
        cut = rng.randrange(1, len(ws))                       # the writes before `cut` are flushed completely
        acc = sum(len(w) for w in ws[:cut]) + rng.choice([0, 0, 0, -1, 1])
        if rng.random() < 0.3:                                  # flushed in two sends
            a1 = rng.randrange(1, max(2, acc))
            ops += [["script", ["accept", a1]], ["script", ["accept", max(1, acc - a1)]]]
        else:
            ops.append(["script", ["accept", max(1, acc)]])
        ops.append(["script", ["err", rng.random() < 0.5]])
        ops.append(rng.choice([EV_W, EV_W, EV_RW, W(word())]))
        ops += [["runcb"], W("z"), ["close", False], ["runcb"]]
        out.append(mkcase(64, 4096, ops, maxw=rng.choice([None, None, 64])))
    return out


def gen_cases(rng, tier):
    out, seen = [], set()

    def add(c):
        if c is None:
            return
        key = json.dumps([c["chunk"], c["maxbuf"], c["maxw"], c["ops"]])
        if key not in seen:
            seen.add(key)
            out.append(c)

    def sweep(chunk, maxw, base, positions, both):
        for p in positions:
            for cause in causes(rng, both):
                add(build(rng, chunk, maxw, base, p, cause))

    hand = hand_bases()
    if tier == "quick":
        for chunk, maxw, base in hand:
            sweep(chunk, maxw, base, sorted(rng.sample(range(len(base) + 1), 2)), False)
        for _ in range(5):
            chunk, maxw, base = gen_base(rng, rng.randrange(1, 4), budget=6)
            sweep(chunk, maxw, base, range(len(base) + 1), False)          # small programs: every position
        for _ in range(10):
            chunk, maxw, base = gen_base(rng, rng.randrange(3, 7))
            n = len(base) + 1
            sweep(chunk, maxw, base, range(n) if n <= 7 and rng.random() < 0.3 else sorted(rng.sample(range(n), min(n, 2))), False)
    else:
        # exhaustive part: fixed programs x every position x every cause (both variants of the two-way causes)
        for chunk, maxw, base in hand:
            sweep(chunk, maxw, base, range(len(base) + 1), True)
        for i in range(30):
            chunk, maxw, base = gen_base(rng, rng.randrange(1, 7), budget=6 if i % 3 == 0 else 11)
            sweep(chunk, maxw, base, range(len(base) + 1), True)
    for c in gen_write_close(rng, tier):
        add(c)
    return out


def corpus_cases():
    from harness.props import c11
    A = lambda x: ["arrive", ["data", x]]
    R = lambda *r: ["read", list(r)]
    W = lambda x: ["write", x]
    # a pending connect + a write pending behind it + a pending read, close callback armed
    pend = [["setcb"], ["connect", False], W("hello"), R("bytes", 4, False)]
    tail = [W("x"), ["connect", False], R("bytes", 1, False), ["runcb"], ["close", False], ["runcb"]]
    # connected stream: partially sent write + pending read
    pend2 = [["setcb"], ["script", ["accept", 2]], W("hello"), ["script", ["block"]], R("until", "\n", None), A("ab"), EV_R]
    w = c11.corpus_cases()
    return [
        w[0], w[2],
        mkcase(64, 4096, pend + [["close", False]] + tail),
        mkcase(64, 4096, pend + [["close", True]] + tail),
        mkcase(64, 4096, pend + [["arrive", ["eof"]], EV_R] + tail),
        mkcase(64, 4096, pend + [["arrive", ["err", True]], EV_R] + tail),
        mkcase(64, 4096, pend + [["arrive", ["err", False]], EV_R] + tail),
        mkcase(64, 4096, pend + [["event", False, False, True, False, True], ["runcb"]] + tail),
        mkcase(64, 4096, pend + [["event", False, True, False, True, False]] + tail),                     # connect error
        mkcase(64, 4096, pend2 + [["script", ["err", True]], EV_W] + tail),                                # write error
        mkcase(64, 4096, pend2 + [["script", ["err", False]], W("zz"), EV_W] + tail),
        mkcase(64, 4096, [["setcb"], ["script", ["block"]], W("hello"), R("until", "\n", 3), A("abcdef"), EV_R] + tail),   # unsatisfiable
        mkcase(4, 8, [["setcb"], ["script", ["block"]], W("hello"), R("bytes", 20, False), A("aaaaaaaaaaaa"), EV_R] + tail),  # buffer full
        # pending read that the buffered data satisfies at close (delimiter arrived between two scans, then EOF)
        mkcase(1, 4096, [R("until", "\n", None), A("ab\n"), ["arrive", ["eof"]], EV_R, R("bytes", 1, False), ["runcb"]]),
        mkcase(64, 4096, [["setcb"], R("uclose"), A("abc"), EV_R, ["script", ["block"]], W("q"), ["close", False], ["runcb"],
                          ["close", False], ["runcb"]]),
    ]


# ---------------------------------------------------------------- independent oracle
def _is_fid(x):
    return isinstance(x, int) and not isinstance(x, bool)


def _is_raise(x):
    return isinstance(x, list) and len(x) == 2 and x[0] == "raise"


def _is_sce(x):
    return _is_raise(x) and isinstance(x[1], list) and len(x[1]) == 2 and x[1][0] == "StreamClosedError"


def _tok_err(t, base_err):
    return base_err if t[0] == "eof" else ("EReset" if t[1] else "EOSErr")


def satisfiable(req, buf):
    """could the read request be completed from the buffered bytes `buf` (BaseIOStream._find_read_pos contract)?"""
    k = req[0]
    if k in ("bytes", "into"):
        return len(buf) >= req[1] or (bool(req[2]) and len(buf) > 0)
    if k == "until":
        d, mx = b(req[1]), req[2]
        loc = buf.find(d)
        return len(buf) > 0 and loc >= 0 and (mx is None or loc + len(d) <= mx)
    if k == "regex":
        m = re.search(O11.regex_src(req[1]), buf) if buf else None
        return m is not None and (req[2] is None or m.end() <= req[2])
    return True     # read_until_close: always completed by close


def expected_errors(case, obs, i, base_err):
    """the error kinds the stream may report when op i is the step in which it closes (from the op list alone)"""
    ops = case["ops"]
    op = ops[i]
    k = op[0]
    terms = [o[1] for o in ops[:i] if o[0] == "arrive" and o[1][0] != "data"]
    serrs = [o[1] for o in ops[:i] if o[0] == "script" and o[1][0] == "err"]
    arrived = sum(len(o[1][1]) for o in ops[:i] if o[0] == "arrive" and o[1][0] == "data")
    rd = set()
    if terms:
        rd.add(_tok_err(terms[0], base_err))
    if any(o[0] == "read" and o[1][0] in ("until", "regex") and o[1][2] is not None for o in ops[:i + 1]):
        rd.add("EUnsat")
    if arrived > case["maxbuf"]:
        rd.add(base_err)
    wr = set()
    if serrs:
        wr.add("EReset" if serrs[0][1] else "EOSErr")
    if k == "close":
        return {"EOSErr"} if op[1] else {base_err}
    if k == "runcb":
        return {base_err}
    if k == "connect":
        return {"EConn"} if op[1] else set()
    if k == "write":
        return wr
    if k == "read":
        return rd
    if k == "event":
        s = set()
        if op[1]:
            s |= rd
        if op[2]:
            s |= wr
        if op[4]:
            s.add("EConn")
        return s
    return set()


def failures(case, obs):
    """violations of C13 visible in the observable (empty list = holds)"""
    if not O11.wellformed(case, obs):
        return ["malformed observable"]
    ops = case["ops"]
    recs = obs[:-1]
    final_error = obs[-1][1]
    out = []
    returned = {}        # fid -> (kind, op index, read request or None)
    done = {}            # fid -> (step, outcome)
    prev_closed, prev_rbs = False, 0
    n_setcb = n_add_user = 0
    outstanding_user = 0
    n_close_fd = 0
    delivered = 0
    arrived = b""
    base_err = None      # error left behind by the last delivered ERROR event
    ever_closed = False
    for i, (op, rec) in enumerate(zip(ops, recs)):
        ret, events, status = rec
        closed_now, _, rbs = status
        closed_now = bool(closed_now)
        kind = op[0]
        if kind == "setcb":
            n_setcb += 1
        if kind == "arrive" and op[1][0] == "data":
            arrived += b(op[1][1])
        if prev_closed and not closed_now:
            out.append("step %d: stream reopened" % i)
        flips = closed_now and not prev_closed
        pending_before = [f for f in returned if f not in done]
        if kind in ("read", "write", "connect") and _is_fid(ret):
            if ret in returned:
                out.append("step %d: future id %d returned twice" % (i, ret))
            if kind == "connect" and not prev_closed:
                # API misuse outside the property (ASSUMPTIONS): a second connect() on an open stream replaces
                # _connect_future; the application has abandoned the first one
                for f in [f for f, v in returned.items() if v[0] == "connect" and f not in done]:
                    del returned[f]
            returned[ret] = (kind, i, op[1] if kind == "read" else None)
        elif ret is not None and not _is_raise(ret):
            out.append("step %d: unexpected return value %r" % (i, ret))
        # ---- events of this step
        adds, dones, ran_user, closefd_here, step_data = [], [], 0, 0, 0
        for j, e in enumerate(events):
            if O11.is_done(e):
                fid, o = e[1], e[2]
                if fid in done:
                    out.append("step %d: future %d settled twice" % (i, fid))          # (a)
                done[fid] = (i, o)
                dones.append(j)
                if O11.is_closed_outcome(o):
                    if not closed_now:
                        out.append("step %d: StreamClosedError settlement but the stream is open" % i)
                    if o[1] != final_error:                                             # (c)
                        out.append("step %d: future %d failed with real_error %r, stream error is %r" % (i, fid, o[1], final_error))
                elif O11.is_data_outcome(o):
                    step_data += len(O11.data_of(o))
                    if fid in returned and returned[fid][0] != "read":
                        out.append("step %d: %s future %d got read data" % (i, returned[fid][0], fid))
                elif o == "ok":
                    if fid in returned and returned[fid][0] == "read":
                        out.append("step %d: read future %d got a write/connect result" % (i, fid))
                    if prev_closed:
                        out.append("step %d: a write/connect succeeded after close" % i)
                else:
                    out.append("step %d: future %d got unexpected outcome %r" % (i, fid, o))
            elif e == "close_fd":
                closefd_here += 1
            elif isinstance(e, list) and len(e) == 2 and e[0] == "add_callback" and e[1] == "user_close_cb":
                adds.append(j)
            elif isinstance(e, list) and len(e) == 2 and e[0] == "add_callback" and e[1] == "deferred_close":
                if kind == "event":
                    base_err = "EFd" if op[5] else None
                else:
                    out.append("step %d: deferred close scheduled outside a readiness event" % i)
            elif isinstance(e, list) and len(e) == 2 and e[0] == "ran":
                if e[1] == "user_close_cb":
                    ran_user += 1
                if kind != "runcb":
                    out.append("step %d: callback ran outside runcb" % i)
            else:
                out.append("step %d: unknown event %r" % (i, e))
        delivered += step_data
        # (f) the fd is closed exactly once, in the step where the stream becomes closed
        n_close_fd += closefd_here
        if closefd_here != (1 if flips else 0) or n_close_fd > 1:
            out.append("step %d: close_fd x%d (closed flips: %s)" % (i, closefd_here, flips))
        # (d) close callback: once per set_close_callback, only on a closed stream, after all settlements
        n_add_user += len(adds)
        if n_add_user > n_setcb:
            out.append("step %d: close callback scheduled more often than it was set" % i)
        if adds and not closed_now:
            out.append("step %d: close callback scheduled while the stream is open" % i)
        if adds and dones and max(dones) > min(adds):
            out.append("step %d: close callback scheduled before a pending future was settled" % i)
        if kind == "runcb":
            if ran_user != outstanding_user:
                out.append("step %d: %d close callbacks ran, %d were scheduled" % (i, ran_user, outstanding_user))
            outstanding_user = len(adds)
        else:
            outstanding_user += len(adds)
        # (c) calls that raise StreamClosedError carry the real error too
        if _is_sce(ret):
            if not closed_now:
                out.append("step %d: StreamClosedError raised on an open stream" % i)
            if ret[1][1] != final_error:
                out.append("step %d: StreamClosedError(real_error=%r) raised, stream error is %r" % (i, ret[1][1], final_error))
        # (b) on a closed stream nothing the application holds is pending
        if closed_now:
            for f, (k_, at, _) in returned.items():
                if f not in done:
                    out.append("step %d: %s future %d (from step %d) still pending on a closed stream" % (i, k_, f, at))
        # never more bytes than arrived
        if delivered + rbs > len(arrived):
            out.append("step %d: delivered %d + buffered %d > arrived %d" % (i, delivered, rbs, len(arrived)))
        # ---- the closing step
        if flips:
            ever_closed = True
            buf_after = arrived[delivered:delivered + rbs]
            mine = pending_before + ([ret] if _is_fid(ret) and kind in ("read", "write", "connect") else [])
            for f in mine:
                if f not in returned:
                    continue
                k_, at, req = returned[f]
                if f not in done or done[f][0] != i:
                    continue
                o = done[f][1]
                if k_ == "read":
                    if O11.is_data_outcome(o):
                        if not O11.contract_ok(req, o):
                            out.append("step %d: read %r completed at close with non-conforming %r" % (i, req, o))
                    elif O11.is_closed_outcome(o) and satisfiable(req, buf_after):
                        out.append("step %d: pending read %r failed although the buffered %r satisfies it" % (i, req, buf_after))
                elif k_ == "write" and not O11.is_closed_outcome(o):
                    # every write future still pending when the stream closes fails with StreamClosedError (the real
                    # error is checked by (c)): _handle_write resolves futures only after a send loop that did not
                    # fail, and nothing runs after it in the same step, so a write can never *succeed* in the step
                    # that closes the stream
                    out.append("step %d: write future %d pending at close got %r instead of StreamClosedError" % (i, f, o))
                elif not (O11.is_closed_outcome(o) or o == "ok"):
                    out.append("step %d: %s future %d got %r" % (i, k_, f, o))
            exp = expected_errors(case, obs, i, base_err)
            if final_error not in exp:
                out.append("step %d: stream closed by %r with error %r, expected one of %r" % (i, op, final_error, sorted(map(str, exp))))
        # (e) after the close
        if prev_closed:
            if kind == "write" and not _is_sce(ret):
                out.append("step %d: write on a closed stream returned %r" % (i, ret))
            if kind == "connect" and not _is_raise(ret):
                out.append("step %d: connect on a closed stream returned %r" % (i, ret))
            if kind == "read":
                if _is_fid(ret):
                    if ret not in done or done[ret][0] != i:
                        out.append("step %d: read on a closed stream left future %d pending" % (i, ret))
                    elif O11.is_data_outcome(done[ret][1]) and not O11.contract_ok(op[1], done[ret][1]):
                        out.append("step %d: post-close read %r got non-conforming %r" % (i, op[1], done[ret][1]))
                elif not _is_sce(ret):
                    out.append("step %d: read on a closed stream returned %r" % (i, ret))
            if kind in ("event", "arrive", "script", "setcb") and (events or ret is not None):
                out.append("step %d: %s on a closed stream had effects" % (i, kind))
            if step_data and kind != "read":
                out.append("step %d: data delivered after close outside a read call" % i)
            if prev_rbs - rbs != step_data:
                out.append("step %d: buffered bytes went %d -> %d but %d were delivered" % (i, prev_rbs, rbs, step_data))
        prev_closed, prev_rbs = closed_now, rbs
    if not ever_closed and final_error is not None and not any(op[0] == "event" and op[3] for op in ops):
        out.append("stream never closed but reports error %r" % (final_error,))
    return out


def py_check(case, obs):
    return not failures(case, obs)


# ---------------------------------------------------------------- evidence helpers
def _close_info(case, obs):
    """(index of the closing step, [(kind, fid, outcome-at-close or None)] for futures pending before it)"""
    if not O11.wellformed(case, obs):
        return None, []
    returned, done = {}, set()
    prev = False
    for i, (op, rec) in enumerate(zip(case["ops"], obs)):
        pend = [(returned[f], f) for f in returned if f not in done]
        here = {}
        for e in rec[1]:
            if O11.is_done(e):
                done.add(e[1])
                here[e[1]] = e[2]
        if op[0] in ("read", "write", "connect") and _is_fid(rec[0]):
            returned[rec[0]] = op[0]
        if rec[2][0] and not prev:
            res = [(k, f, here.get(f)) for k, f in pend]
            if _is_fid(rec[0]) and op[0] in ("read", "write", "connect"):
                res.append((op[0] + "(this call)", rec[0], here.get(rec[0])))
            return i, res
        prev = bool(rec[2][0])
    return None, []


def nontrivial(case, obs):
    i, _ = _close_info(case, obs)
    if i is None:
        return None
    return (case["chunk"], case["maxbuf"], case.get("maxw"), repr(case["ops"]))


def classify(case, obs):
    ops = case["ops"]
    yield "cause=%s" % case.get("cause", "corpus")
    yield "ops=%s" % ("1-8" if len(ops) < 9 else "9-16" if len(ops) < 17 else "17-25" if len(ops) < 26 else "26+")
    if not O11.wellformed(case, obs):
        yield "harness exception"
        return
    i, pend = _close_info(case, obs)
    if i is None:
        yield "stream never closes"
        yield "never closes: cause=%s" % case.get("cause", "corpus")
        return
    yield "closed: cause=%s" % case.get("cause", "corpus")
    yield "closing op=%s" % ops[i][0]
    yield "error at close=%s" % (obs[-1][1],)
    if "pos" in case:
        yield "inserted close is the first close" if i >= case["pos"] else "base program closed before the inserted close"
    kinds = set()
    for k, f, o in pend:
        what = "completed with data" if O11.is_data_outcome(o) else "failed StreamClosedError" if O11.is_closed_outcome(o) else \
            "completed ok" if o == "ok" else "NOT SETTLED"
        yield "at close: %s future %s" % (k, what)
        kinds.add(k.split("(")[0])
    if not pend:
        yield "at close: nothing pending"
    if len(kinds) >= 2:
        yield "at close: %s pending together" % "+".join(sorted(kinds))
    if any(isinstance(e, list) and e[0] == "add_callback" and e[1] == "user_close_cb" for e in obs[i][1]):
        yield "close callback scheduled at close"
    returned = set(rec[0] for rec in obs[:-1] if _is_fid(rec[0]))
    for j in range(i + 1, len(ops)):
        op, rec = ops[j], obs[j]
        if op[0] == "read":
            if _is_fid(rec[0]):
                o = [e[2] for e in rec[1] if O11.is_done(e) and e[1] == rec[0]]
                yield "post-close read: " + ("data" if o and O11.is_data_outcome(o[0]) else "failed future" if o else "PENDING")
            else:
                yield "post-close read: raises"
        elif op[0] in ("write", "connect"):
            yield "post-close %s: %s" % (op[0], "raises" if _is_raise(rec[0]) else "RETURNS")
        elif op[0] == "close":
            hidden = [e for e in rec[1] if O11.is_done(e) and e[1] not in returned]
            yield "second close" + (": settles a future the caller never received" if hidden else "")
            if any(isinstance(e, list) and e[0] == "add_callback" for e in rec[1]):
                yield "second close schedules a re-armed close callback"


def signature(case, obs):
    return "c13"


TRUSTED_BASE = [
    "harness/fake_iostream.py scripted transport + the Session driver in harness/props/c11.py (monkeypatched tornado.iostream.Future subclass that "
    "logs every set_result/set_exception in order; IOLoop proxy that records add_callback; a fake socket whose connect()/SO_ERROR are scripted, "
    "with IOStream.connect/_handle_connect grafted onto the scripted stream)",
    "the model coq/C11/Model.v follows iostream.py function by function but is hand-written (no translator); it is tied to the code only by the "
    "correspondence cases",
    "harness/props/c11_oracle.py + py_check in this module: an independent Python formulation of the property on the implementation's observable",
]
ASSUMPTIONS = [
    "single-threaded use: one program step (a stream method call, one readiness event, or one round of IOLoop callbacks) runs to completion before the next",
    "futures are not cancelled by the application; connect() is called at most once on an open stream",
    "the write buffer is modelled as one flat byte list; this is exact only while the buffered total stays below _StreamBuffer's 2048-byte "
    "large-buffer threshold, so generated programs write < 1500 bytes in total",
    "SSL (SSLIOStream._ssl_connect_future, handshake) is out of scope",
]
RULE = ("base programs of <= 6 application ops (read_bytes/partial, read_into, read_until, read_until_regex, read_until_close, writes behind "
        "accept-k/EWOULDBLOCK send scripts, connect, set_close_callback, arrivals, readiness events) with a close inserted at a position x cause "
        "(local close, close(exc_info), EOF, ECONNRESET, read error, ERROR event with/without fd error, write error, connect error, "
        "unsatisfiable read, buffer full), then probes (write, connect, reads, callbacks, second close); counted when the stream really closes; "
        "distinct by (chunk, max_buffer, max_write_buffer, op list)")
LEVEL_TEXT = ("Machine-checked (Coq) proofs over an executable model of BaseIOStream (close/_signal_closed, _handle_events, the read path, write/_handle_write, "
              "IOStream.connect/_handle_connect) for all operation sequences and close points; the model is compared with the real stream (driven over a "
              "scripted transport) on programs with a close inserted at every position for every cause.")
LEVEL_NOTE = "Trusted: Coq kernel/vm_compute; the hand-written model (tied by correspondence); the scripted transport and driver."
TECHNIQUE = "Coq proof (state invariants by induction over operation sequences) + differential correspondence via vm_compute + independent Python oracle"
