"""C45 — LogFormatter.format never fails and indents every newline.

A case is either a call of LogFormatter.format on a record built from the case description, or a
direct call of tornado.log._safe_unicode.  The stdlib parts (record.getMessage(), repr() of the
exception / of record.__dict__, formatTime, formatException) are oracles evaluated on a copy of the
very record; everything LogFormatter does with them is computed by the Coq model.
Cases with "opt": true run under `python -O` (the assert in format() is compiled away, the bytes branch
of _safe_unicode becomes reachable) in ONE batched subprocess per check run."""
import copy
import json
import logging
import os
import re
import subprocess
import sys

from harness import gallina as G

ID = "C45"
COQ_DIRS = ["C45", "Gen"]
PROPERTY_FILE = "C45/Property.v"
RUN_IMPORTS = "From TV Require Import C45.Model C45.Run."
RUN_FN = "run_case"
CHECK_FN = "check_case"
INPUT_TYPE = "case_input"
TRUSTED_BASE = [
    "the `logging` package is an oracle for: the outcome of LogRecord.getMessage() (returned value, or exception class + repr(e)), "
    "repr(record.__dict__), Formatter.formatTime and Formatter.formatException — evaluated by the harness on a copy of the record; "
    "CPython's `fmt % mapping`, bytes.decode('utf-8'), repr(bytes) and the built-in exception hierarchy are modelled in Gallina and tied by the correspondence only",
    "translators/c45_src.py (statement-shape matcher + template instantiation; a wrong template is caught only by the correspondence)",
    "coq/C14/Utf8.v + Utf8Proofs.v (strict UTF-8 codec and its round-trip theorem) are imported from property C14",
]
ASSUMPTIONS = [
    "never-raises is claimed for records whose getMessage() returns or raises a subclass of Exception, whose objects have a working __repr__, whose exc_info is accepted by "
    "formatException, and for a format string that fits the record (keys present, %d on ints): `in_domain` in coq/C45/Run.v; outside it the model predicts the exception class and the implementation must agree",
    "the curses branch of LogFormatter.__init__ (colour strings from terminfo) is not modelled; the ANSI branch and colour-off are",
    "only \\n counts as a newline (the property's wording): \\r, U+2028 etc. pass through unchanged",
]
RULE = ("records from a grammar: str/bytes/int/object messages with %-specifiers (matching, too few/many args, wrong type, bad specifier, %c overflow, mapping argument with a missing key), "
        "arguments whose __str__ raises each of 25 exception classes (incl. BaseException-only ones) or whose __repr__ also raises, getMessage overrides returning bytes (valid / invalid UTF-8) / None / int, "
        "with and without python -O; 18+ format strings (widths, precisions, message 0/1/2 times, newline in the format, missing key, %d on a str, incomplete); colour off / unsupported / ANSI table (default and custom, "
        "5 standard + custom levels); exc_info with multi-line text, preset/cached/empty exc_text, exc_info rejected by formatException; direct _safe_unicode calls on boundary byte strings; "
        "distinct by input JSON; non-trivial = output contains a newline, the fallback was taken, an exception escaped, or a non-ASCII/bytes conversion happened")



def pre_build():
    """regenerate coq/Gen/C45_src.v from the checkout under test (fails closed on any unexpected statement shape)"""
    import importlib
    root = os.path.dirname(os.path.dirname(os.path.dirname(os.path.abspath(__file__))))
    sys.path.insert(0, os.path.join(root, "translators"))
    import c45_src
    importlib.reload(c45_src)
    c45_src.emit(os.environ.get("VERIF_REPO", "/repo"), os.path.join(root, "coq", "Gen", "C45_src.v"))


DEFAULT = None   # LogFormatter.DEFAULT_FORMAT
FMTS = [
    DEFAULT,
    "%(message)s",
    "%(levelname)s|%(message)s|%(name)s",
    "%(name)s: %(message)s   ",
    "%(color)s%(levelname)-8s%(end_color)s %(message)s",
    "%(lineno)5d %(message).10s",
    "%(levelno)d:%(message)s:%(message)s",
    "no message %(name)s",
    "100%% %(message)s",
    "%(asctime)s\n%(message)s",
    "%(color)s[%(levelname)1.1s %(module)s:%(lineno)s]%(end_color)s %(message)s\t",
    "%(name).3s %(name)9s|%(name)-9s|%(message)s",
    "%(color)s%(message)s%(end_color)s",
]
BAD_FMTS = ["%(nokey)s %(message)s", "%(levelname)d %(message)s", "%(message)s %", "%(message)s %(name", "%(message)d"]

EXC_NAMES = ["BaseException", "Exception", "TypeError", "ValueError", "UnicodeError", "UnicodeDecodeError", "UnicodeEncodeError",
             "LookupError", "KeyError", "IndexError", "ArithmeticError", "OverflowError", "ZeroDivisionError", "AssertionError",
             "AttributeError", "RuntimeError", "RecursionError", "NotImplementedError", "OSError", "MemoryError", "StopIteration",
             "KeyboardInterrupt", "SystemExit", "GeneratorExit", "UserException", "UserBase"]


class UserException(Exception):
    pass


class UserBase(BaseException):
    pass


class BadReprError(Exception):
    def __repr__(self):
        raise LookupError("no repr for the exception either")


def make_exc(name, text="boom\nline"):
    if name == "UserException":
        return UserException(text)
    if name == "UserBase":
        return UserBase(text)
    if name == "BadReprError":
        return BadReprError(text)
    import builtins
    cls = getattr(builtins, name)
    if name == "UnicodeDecodeError":
        return cls("utf-8", b"\xff\n", 0, 1, "bad\nbyte")
    if name == "UnicodeEncodeError":
        return cls("ascii", "\xe9\n", 0, 1, "bad\nchar")
    return cls(text)


def cls_name(e):
    n = type(e).__name__
    if n in EXC_NAMES and type(e).__module__ in ("builtins", __name__):
        return n
    return "UserException" if isinstance(e, Exception) else "UserBase"


class Raiser:
    """an argument / message object whose __str__ raises; repr works (and may contain a newline)"""
    def __init__(self, name):
        self.name = name

    def __str__(self):
        raise make_exc(self.name)

    def __repr__(self):
        return "<R %s>" % self.name


class NLRepr:
    def __repr__(self):
        return "<nl\nrepr>"


class BadRepr:
    """neither str() nor repr() works"""
    def __str__(self):
        raise RuntimeError("no str")

    def __repr__(self):
        raise ZeroDivisionError("no repr")


def decode_arg(a):
    k = a[0]
    if k == "s":
        return a[1]
    if k == "b":
        return a[1].encode("latin-1")
    if k == "i":
        return a[1]
    if k == "raise":
        return Raiser(a[1])
    if k == "nlrepr":
        return NLRepr()
    if k == "badrepr":
        return BadRepr()
    if k == "map":
        return dict(a[1])
    if k == "none":
        return None
    raise ValueError(k)


KEEP = ("name", "msg", "args", "levelname", "levelno", "module", "lineno", "exc_info", "exc_text", "created")


def build(case):
    import tornado.log as tl
    kw = {}
    if case.get("fmt") is not None:
        kw["fmt"] = case["fmt"]
    color = case.get("color")
    if color is None:
        f = tl.LogFormatter(color=False, **kw)
    elif color == "nosupport":
        f = tl.LogFormatter(color=True, **kw)          # stderr of the check is not a colour terminal
    else:
        saved = tl.curses, tl._stderr_supports_color
        tl.curses, tl._stderr_supports_color = None, (lambda: True)    # the colorama branch of __init__
        try:
            if color == "default":
                f = tl.LogFormatter(color=True, **kw)
            else:
                f = tl.LogFormatter(color=True, colors={int(k): int(v) for k, v in color}, **kw)
        finally:
            tl.curses, tl._stderr_supports_color = saved
    msg = decode_arg(case["msg"])
    args = tuple(decode_arg(a) for a in case.get("args", []))     # LogRecord unwraps a single non-empty mapping itself
    exc_info = None
    if case.get("exc") is not None:
        if case.get("tb"):
            try:
                raise ValueError(case["exc"])
            except ValueError:
                exc_info = sys.exc_info()
        else:
            exc_info = (ValueError, ValueError(case["exc"]), None)
    if case.get("exc_info_bad"):
        exc_info = True
    cls = logging.LogRecord
    gm = case.get("gm")
    if gm is not None:
        if gm[0] == "raise":
            def getMessage(self, _n=gm[1]):
                raise make_exc(_n)
        else:
            def getMessage(self, _v=decode_arg(gm)):
                return _v
        cls = type("Rec", (logging.LogRecord,), {"getMessage": getMessage})
    level = case.get("level", logging.ERROR)
    rec = cls("tornado.test", level, "/x/mod.py", 42, msg, args, exc_info)
    rec.created = 1300000000.25
    rec.msecs = 250.0
    rec.relativeCreated = 1.0
    rec.thread = 1
    rec.process = 1
    if case.get("exc_text") is not None:
        rec.exc_text = case["exc_text"]
    if not case.get("full"):
        for k in list(rec.__dict__):
            if k not in KEEP:
                del rec.__dict__[k]
    return f, rec


def _noaddr(t):
    """object addresses / harness line numbers in reprs and tracebacks: canonicalise on both sides"""
    t = re.sub(r"0x[0-9a-f]{6,}", "0xADDR", t)
    return re.sub(r'File "[^"\n]*", line \d+', 'File "F", line 0', t)


def _key(case):
    return json.dumps(case, sort_keys=True)


# ---------------------------------------------------------------- Gallina rendering

def gtext(s):
    """text -> Gallina `text`; runs of printable ASCII are written as (t_of_string "...") — much cheaper for coqc
    to read than a list of numerals"""
    if isinstance(s, str):
        s = _noaddr(s)
    vals = [ord(c) for c in s] if isinstance(s, str) else list(s)
    # split into maximal runs of printable ASCII (kept as string literals when >= 6 long) and the rest
    runs = []
    for v in vals:
        p = 32 <= v < 127
        if runs and runs[-1][0] == p:
            runs[-1][1].append(v)
        else:
            runs.append([p, [v]])
    parts, nums = [], []
    for p, vs in runs:
        if p and len(vs) >= 6:
            if nums:
                parts.append("[" + ";".join(map(str, nums)) + "]%N")
                nums = []
            parts.append('t_of_string "%s"' % "".join(map(chr, vs)).replace('"', '""'))
        else:
            nums += vs
    if nums:
        parts.append("[" + ";".join(map(str, nums)) + "]%N")
    if not parts:
        return "(@nil N)"
    return "(" + " ++ ".join(parts) + ")"


def g_repr_res(fn):
    try:
        return "(ReprOk %s)" % gtext(fn())
    except BaseException as e:
        return "(ReprRaises E%s)" % cls_name(e)


def g_pyval(v):
    if v is None:
        return "PNone"
    if isinstance(v, str):
        return "(PStr %s)" % gtext(v)
    if isinstance(v, bytes):
        return "(PBytes %s)" % G.gbytes(v)
    return "(POther %s)" % gtext(repr(type(v)))


def g_fields(rec, fmt):
    keys = ["name", "levelname", "module", "lineno"] + re.findall(r"%\(([^()]*)\)", fmt)
    out, seen = [], set()
    for k in keys:
        if k in seen or k in ("message", "asctime", "color", "end_color", "levelno") or k not in rec.__dict__:
            continue
        seen.add(k)
        v = rec.__dict__[k]
        if isinstance(v, str):
            out.append("(%s, VStr %s)" % (gtext(k), gtext(v)))
        elif isinstance(v, int) and not isinstance(v, bool):
            out.append("(%s, VInt %s)" % (gtext(k), G.gz(v)))
        # other types (float, None, tuple) are outside the modelled fragment: left out, so a format string
        # that uses them makes the model answer KeyError and the case a mismatch (fails closed)
    return G.glist(out, "(text * fval)")


def oracle_input(case, f, rec):
    """Gallina term of type log_input for this record (oracles evaluated on a copy)."""
    r2 = copy.copy(rec)
    r2.__dict__ = dict(rec.__dict__)
    fallback = True
    try:
        m = r2.getMessage()
        getmsg = "(GMReturn %s)" % g_pyval(m)
        fallback = not isinstance(m, str)
    except BaseException as e:
        getmsg = "(GMRaise E%s %s)" % (cls_name(e), g_repr_res(lambda: repr(e)))
    # repr(record.__dict__) is only evaluated by the f-string in the except branch: supplied when the
    # message is not a str (keeps the literals small); a wrong guess here is a mismatch, never a pass
    dict_repr = g_repr_res(lambda: repr(r2.__dict__)) if fallback else "(ReprOk (@nil N))"
    asctime = logging.Formatter(datefmt=f.datefmt).formatTime(r2, f.datefmt)
    color = case.get("color")
    if color is None or color == "nosupport":
        gcolor = "ColorOff"
    elif color == "default":
        gcolor = "(ColorAnsi DEFAULT_COLORS)"
    else:
        gcolor = "(ColorAnsi %s)" % G.glist(["(%s, %s)" % (G.gz(int(k)), G.gz(int(v))) for k, v in color], "(Z * Z)")
    et = rec.exc_text
    assert et is None or isinstance(et, str)
    g_et = "None" if et is None else "(Some %s)" % gtext(et)
    if rec.exc_info and not et:
        try:
            g_fe = "(Returned %s)" % gtext(logging.Formatter().formatException(rec.exc_info))
        except Exception as e:
            g_fe = "(@Raised text E%s ReprUnsup)" % cls_name(e)
    else:
        g_fe = "(@Unsupported text)"          # not called by format() on this record
    return "(CFormat (Build_log_input %s %s %s %s %s %s %s %s %s %s %s))" % (
        gtext(f._fmt), gcolor, G.gbool(bool(case.get("opt"))), getmsg, dict_repr, gtext(asctime),
        G.gz(rec.levelno), g_fields(rec, f._fmt), G.gbool(bool(rec.exc_info)), g_et, g_fe)


# ---------------------------------------------------------------- running the implementation

def eval_case(case):
    """-> (observable, Gallina input text); must run in a process whose -O state matches case['opt']"""
    if case.get("k") == "su":
        from tornado.log import _safe_unicode
        v = decode_arg(case["v"])
        try:
            r = _safe_unicode(v)
            o = None if r is None else [G.Tag("str"), r] if isinstance(r, str) else [G.Tag("NotStr"), type(r).__name__]
        except Exception as e:
            o = [G.Tag("Raised"), G.Tag(cls_name(e))]
        return o, "(CSafeUnicode %s)" % g_pyval(v)
    assert bool(case.get("opt")) == bool(sys.flags.optimize), "case must run under python -O"
    f, rec = build(case)
    gi = oracle_input(case, f, rec)
    try:
        out = f.format(rec)
    except BaseException as e:
        return [G.Tag("Raised"), G.Tag(cls_name(e))], gi
    if not isinstance(out, str):
        return [G.Tag("NotStr"), type(out).__name__], gi
    et = rec.exc_text
    et = None if et is None else _noaddr(et) if isinstance(et, str) else [G.Tag("NotStr"), type(et).__name__]
    return [_noaddr(out), et], gi


def _enc(o):
    return G.jsonable(o)


def _dec(o):
    if isinstance(o, dict) and "tag" in o:
        return G.Tag(o["tag"])
    if isinstance(o, list):
        return [_dec(x) for x in o]
    return o


_CACHE = {}        # key -> (obs, gallina input)
_PENDING = []      # generated cases (for the one batched -O subprocess)


def _run_opt_batch(cases):
    cases = [c for c in cases if c.get("opt") and _key(c) not in _CACHE]
    if not cases:
        return
    p = subprocess.run([sys.executable, "-O", "-B", "-m", "harness.props.c45", "--batch"], input=json.dumps(cases),
                       capture_output=True, text=True, timeout=600,
                       cwd=os.path.dirname(os.path.dirname(os.path.dirname(os.path.abspath(__file__)))))
    if p.returncode != 0:
        raise RuntimeError("python -O batch failed: " + p.stderr[-800:])
    for c, (o, gi) in zip(cases, json.loads(p.stdout)):
        _CACHE[_key(c)] = (_dec(o), gi)


def _get(case):
    k = _key(case)
    if k not in _CACHE:
        if case.get("opt"):
            _run_opt_batch(_PENDING + [case])
        else:
            _CACHE[k] = eval_case(case)
    return _CACHE[k]


def run_impl(case):
    return _get(case)[0]


def coq_input(case):
    return _get(case)[1]


def py_check(case, o):
    if case.get("k") == "su":
        v = case["v"]
        if v[0] in ("s", "b"):       # never raises on str / bytes; a newline only from a newline
            return isinstance(o, list) and len(o) == 2 and o[0] == "str" and isinstance(o[1], str) and ("\n" not in o[1] or "\n" in v[1])
        return True
    if isinstance(o, list) and len(o) == 2 and isinstance(o[0], str) and not isinstance(o[0], G.Tag):
        s = o[0]
        i = s.find("\n")
        while i != -1:
            if s[i + 1:i + 5] != "    ":
                return False
            i = s.find("\n", i + 1)
        return True
    # an exception escaped: acceptable only if the record is outside the property's domain
    return bool(case.get("out_of_domain"))


# ---------------------------------------------------------------- generator

PIECES = ["x", "hello", "a b", "\n", "\n\n", "\r\n", "[E 260101 00:00:00 web:1] forged", " ", "\x85", "\x0b", "  ", "\t",
          "caf\xe9", "\U0001f600", "%%", "\n    ", "\n   x", "tail\n", "\x00", " "]
SPECS = ["", "%s", "%d", "%s %s", "%(a)s", "%(a)s %(b)s", "%r", "%c", "%5.2s", "%y", "%", "%.2f", "%x"]
CATCHABLE = [n for n in EXC_NAMES if n not in ("BaseException", "KeyboardInterrupt", "SystemExit", "GeneratorExit", "UserBase")]
UNCATCHABLE = ["BaseException", "KeyboardInterrupt", "SystemExit", "GeneratorExit", "UserBase"]
SU_ALPHABET = [0x0a, 0x27, 0x22, 0x5c, 0x41, 0x7f, 0x80, 0xbf, 0xc0, 0xc2, 0xdf, 0xe0, 0xa0, 0x9f, 0xed, 0xef, 0xf0, 0x90, 0x8f,
               0xf4, 0xf5, 0xff, 0x09, 0x0d, 0x00, 0x1f]


def rand_text(rng, maxn=3):
    return "".join(rng.choice(PIECES) for _ in range(rng.randrange(maxn + 1)))


def rand_bytes(rng, maxn=6):
    if rng.random() < 0.4:
        return rand_text(rng, 2).encode("utf-8").decode("latin-1")
    return "".join(chr(rng.choice(SU_ALPHABET)) for _ in range(rng.randrange(maxn + 1)))


def rand_arg(rng):
    k = rng.random()
    if k < 0.3:
        return ["s", rand_text(rng, 2)]
    if k < 0.42:
        return ["b", rand_bytes(rng, 4)]
    if k < 0.6:
        return ["i", rng.choice([0, 7, -5, 1114111, 1114112, 10 ** 12, rng.randrange(1000)])]
    if k < 0.7:
        return ["nlrepr"]
    if k < 0.78:
        return ["map", sorted({rng.choice("ab"): rand_text(rng, 1) for _ in range(rng.randrange(3))}.items())]
    if k < 0.97:
        return ["raise", rng.choice(CATCHABLE)]
    return ["none"]


def mark(c):
    """out_of_domain: the harness's own note of why an escaping exception would be legitimate (py_check only)"""
    ood = False
    for a in [c.get("msg")] + list(c.get("args", [])) + [c.get("gm") or ["x"]]:
        if a and a[0] == "raise" and a[1] in UNCATCHABLE + ["BadReprError"]:
            ood = True
        if a and a[0] == "badrepr":
            ood = True
    if c.get("fmt") in BAD_FMTS or c.get("exc_info_bad"):
        ood = True
    if ood:
        c["out_of_domain"] = True
    return c


def rand_case(rng):
    kind = rng.random()
    if kind < 0.5:
        msg = ["s", rand_text(rng, 2) + rng.choice(SPECS) + rand_text(rng, 1)]
    elif kind < 0.6:
        msg = ["b", rand_bytes(rng)]
    elif kind < 0.7:
        msg = ["raise", rng.choice(CATCHABLE)]
    elif kind < 0.78:
        msg = ["nlrepr"]
    elif kind < 0.85:
        msg = ["i", rng.randrange(100)]
    else:
        msg = ["s", rng.choice(["%s", "%s and %s", "x%sy"])]
    args = [rand_arg(rng) for _ in range(rng.choice([0, 0, 1, 1, 1, 2, 3]))]
    c = {"fmt": rng.choice(FMTS), "msg": msg, "args": args}
    r = rng.random()
    if r < 0.03:
        c["fmt"] = rng.choice(BAD_FMTS)
    r = rng.random()
    if r < 0.2:
        c["exc"] = rand_text(rng, 3)
        if rng.random() < 0.1:
            c["tb"] = True
        if rng.random() < 0.25:
            c["exc_text"] = rng.choice(["", "cached\ntext", rand_text(rng, 2)])
    elif r < 0.3:
        c["exc_text"] = rand_text(rng, 3)
    elif r < 0.32:
        c["exc_info_bad"] = True
    r = rng.random()
    if r < 0.25:
        c["color"] = "default"
    elif r < 0.35:
        c["color"] = [[40, 7], [25, 12], [10, -1], [50, 0]]
    elif r < 0.4:
        c["color"] = "nosupport"
    c["level"] = rng.choice([10, 20, 30, 40, 40, 50, 25, 0])
    r = rng.random()
    if r < 0.14:
        c["gm"] = rng.choice([["b", rand_bytes(rng)], ["b", rand_bytes(rng)], ["none"], ["i", 5], ["s", rand_text(rng)],
                              ["raise", rng.choice(EXC_NAMES)], ["raise", "BadReprError"]])
        c["opt"] = rng.random() < 0.6
    elif r < 0.17:
        c["opt"] = True
    r = rng.random()
    if r < 0.03:
        c["args"] = c["args"] + [["badrepr"]]
    elif r < 0.06:
        c["args"] = [["raise", rng.choice(UNCATCHABLE)]]
        c["msg"] = ["s", "%s"]
    if rng.random() < 0.04:
        c["full"] = True
    return mark(c)


def su_case(b):
    return {"k": "su", "v": ["b", "".join(chr(x) for x in b)]}


def corpus_cases():
    e = lambda **kw: mark(dict({"args": []}, **kw))
    out = [
        e(fmt=DEFAULT, msg=["s", "user said: hi\n[E 260101 00:00:00 web:1] forged entry"], full=True),
        e(fmt=DEFAULT, msg=["s", "%d items"], args=[["s", "x"]], full=True, color="default"),
        e(fmt="%(levelname)s|%(message)s|%(name)s", msg=["b", "\xff\xfe\n\xff"]),
        e(fmt=DEFAULT, msg=["s", "boom  \n "], exc="line1\nline2\n\nline4", tb=True),
        e(fmt="%(message)s", msg=["raise", "RuntimeError"]),
        e(fmt="%(name)s: %(message)s   ", msg=["s", "m"], exc_text="preset\ntext\n"),
        # seeded change C45_1: exc_text cached un-indented by another formatter
        e(fmt=DEFAULT, msg=["s", "m"], exc="E", exc_text="Traceback\n[E 260101 00:00:00 web:1] forged\nValueError: E"),
        # seeded change C45_2: failures of the message interpolation other than TypeError/ValueError
        e(fmt=DEFAULT, msg=["s", "user=%(user)s path=%(path)s"], args=[["map", [["user", "bob"]]]]),
        e(fmt=DEFAULT, msg=["s", "%c"], args=[["i", 1114112]]),
        e(fmt=DEFAULT, msg=["s", "%s"], args=[["raise", "AttributeError"]]),
        # the boundary of "never raises"
        e(fmt=DEFAULT, msg=["s", "%s"], args=[["raise", "KeyboardInterrupt"]]),
        e(fmt=DEFAULT, msg=["s", "%d"], args=[["badrepr"]]),
        e(fmt=DEFAULT, msg=["s", "ok %s"], args=[["badrepr"]]),
        e(fmt="%(message)s", msg=["s", "m"], exc_info_bad=True),
        # python -O: bytes from a getMessage override reach _safe_unicode
        e(fmt=DEFAULT, msg=["s", "m"], gm=["b", "caf\xc3\xa9\nx"], opt=True),
        e(fmt=DEFAULT, msg=["s", "m"], gm=["b", "\xff'\n\""], opt=True, color="default"),
        e(fmt=DEFAULT, msg=["s", "m"], gm=["none"], opt=True),
        e(fmt=DEFAULT, msg=["s", "m"], gm=["i", 5], opt=True),
        e(fmt=DEFAULT, msg=["s", "m"], gm=["b", "abc"]),
        su_case([0xff, 0x0a]), su_case([0xe2, 0x82, 0xac, 0x0a]), su_case([0x27, 0xff]), su_case([0x27, 0x22, 0xff, 0x5c]),
        {"k": "su", "v": ["s", "caf\xe9\n"]}, {"k": "su", "v": ["none"]}, {"k": "su", "v": ["i", 3]},
    ]
    for n in EXC_NAMES:
        out.append(e(fmt="%(message)s", msg=["s", "%s"], args=[["raise", n]]))
    return out


def gen_cases(rng, tier):
    out = []
    n = 330 if tier == "quick" else 8000
    for _ in range(n):
        out.append(rand_case(rng))
    n_su = 60 if tier == "quick" else 600
    for _ in range(n_su):
        out.append(su_case([rng.choice(SU_ALPHABET) for _ in range(rng.randrange(1, 6))]))
    if tier != "quick":
        # small scopes, exhaustively
        for a in SU_ALPHABET:
            out.append(su_case([a]))
            for b in SU_ALPHABET:
                out.append(su_case([a, b]))
        tri = [0x0a, 0x41, 0x80, 0xbf, 0xc2, 0xe0, 0xa0, 0x9f, 0xed, 0xf0, 0x90, 0x8f, 0xf4]     # UTF-8 range boundaries
        for a in tri:
            for b in tri:
                for c_ in tri:
                    out.append(su_case([a, b, c_]))
                    if a >= 0xf0 and b >= 0x80 and c_ >= 0x80:
                        for d in (0x80, 0xbf, 0x41):
                            out.append(su_case([a, b, c_, d]))
        for n_ in EXC_NAMES + ["BadReprError"]:
            for opt in (False, True):
                for fmt in (DEFAULT, "%(message)s"):
                    out.append(mark({"fmt": fmt, "msg": ["raise", n_], "args": [], "opt": opt}))
                    out.append(mark({"fmt": fmt, "msg": ["s", "a %s b"], "args": [["raise", n_]], "opt": opt}))
                    out.append(mark({"fmt": fmt, "msg": ["s", "m"], "args": [], "gm": ["raise", n_], "opt": opt, "exc": "x\ny"}))
        for fmt in FMTS + BAD_FMTS:
            for level in (10, 20, 30, 40, 50, 25):
                for color in (None, "default", [[40, 7], [25, 12]]):
                    c = {"fmt": fmt, "msg": ["s", "m\nn  "], "args": [], "level": level}
                    if color:
                        c["color"] = color
                    out.append(mark(c))
                    out.append(mark(dict(c, exc="e1\ne2")))
    _PENDING[:] = corpus_cases() + out
    return out


def nontrivial(case, o):
    if case.get("k") == "su":
        return _key(case) if case["v"][0] == "b" and any(ord(ch) >= 0x80 or ch == "\n" for ch in case["v"][1]) else None
    if isinstance(o, list) and len(o) == 2:
        if isinstance(o[0], G.Tag) or "\n" in o[0] or "Bad message" in o[0] or case.get("gm"):
            return _key(case)
    return None


def classify(case, o):
    if case.get("k") == "su":
        yield "safe_unicode"
        if isinstance(o, list) and len(o) == 2 and isinstance(o[1], str):
            yield "su:" + ("repr" if o[1].startswith(("b'", 'b"')) else "decoded")
        return
    yield "msg=" + case["msg"][0]
    yield "args=%d" % len(case.get("args", []))
    yield "exc=" + ("info" if case.get("exc") is not None else "text" if case.get("exc_text") is not None else "none")
    yield "color=" + ("off" if case.get("color") is None else case["color"] if isinstance(case["color"], str) else "custom")
    yield "opt=%s" % bool(case.get("opt"))
    if case.get("gm"):
        yield "getMessage-override=" + case["gm"][0]
    if isinstance(o, list) and len(o) == 2:
        if isinstance(o[0], G.Tag):
            yield "escaped=" + str(o[1])
        else:
            yield "bad_message" if "Bad message" in o[0] else "formatted"
            yield "newlines=%s" % min(o[0].count("\n"), 3)
            for a in [case["msg"]] + list(case.get("args", [])):
                if a[0] == "raise" and "Bad message" in o[0]:
                    yield "fallback-for=" + a[1]


def shrink(case):
    if case.get("k") == "su":
        v = case["v"]
        if v[0] in ("b", "s") and len(v[1]) > 1:
            yield {"k": "su", "v": [v[0], v[1][1:]]}
            yield {"k": "su", "v": [v[0], v[1][:-1]]}
        return
    if case.get("args"):
        yield dict(case, args=case["args"][:-1])
    for k in ("exc", "exc_text", "color", "gm", "tb", "full", "level"):
        if case.get(k) is not None:
            yield {kk: v for kk, v in case.items() if kk != k}
    if case.get("fmt") != "%(message)s":
        yield dict(case, fmt="%(message)s")
    if case["msg"][0] == "s" and len(case["msg"][1]) > 1:
        m = case["msg"][1]
        yield dict(case, msg=["s", m[: len(m) // 2]])
        yield dict(case, msg=["s", m[len(m) // 2:]])


def signature(case, o):
    return "k=" + case.get("k", "fmt") + " msg=" + (case.get("msg") or ["-"])[0]


LEVEL_TEXT = ("Machine-checked proof, for a model of LogFormatter.format with explicit outcomes (returned / raised class), that format returns for every record in the stated domain "
              "whatever exception class getMessage() raises (the 'Bad message' fallback), that every newline of the result is followed by four spaces (every later line starts with the indent), "
              "that removing the indentation gives back the content, that colour codes contain no newline and sit before the message, that _safe_unicode is total on str/bytes (UTF-8 decode or repr), "
              "and that record.exc_text is cached un-indented; tied to the real formatter (and to _safe_unicode, with and without python -O) by comparing outputs, cached exc_text and escaping exception classes on generated records.")
LEVEL_NOTE = ("Trusted: Coq kernel/vm_compute; the stdlib logging package as oracle for getMessage's outcome, reprs, timestamps and exception text; the Gallina models of CPython's %-formatting fragment, "
              "UTF-8 decoder, repr(bytes) and exception hierarchy (tied by correspondence only); the harness.")
TECHNIQUE = "fail-closed ast translator of LogFormatter.format / _safe_unicode (coq/Gen/C45_src.v, proved equal to the model) + Coq proofs by induction on the text / on the format-string state machine, case analysis on the exception hierarchy + differential correspondence against LogFormatter.format and _safe_unicode"


def _batch_main():
    cases = json.loads(sys.stdin.read())
    out = []
    for c in cases:
        o, gi = eval_case(c)
        out.append([_enc(o), gi])
    sys.stdout.write(json.dumps(out))


if __name__ == "__main__":
    if "--batch" in sys.argv:
        _batch_main()
