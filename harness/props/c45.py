"""C45 — LogFormatter.format never fails and indents every newline."""
import copy
import logging
import sys
import time

from harness import gallina as G

ID = "C45"
COQ_DIRS = ["C45"]
PROPERTY_FILE = "C45/Property.v"
RUN_IMPORTS = "From TV Require Import C45.Model C45.Run."
RUN_FN = "run_case"
CHECK_FN = "check_case"
INPUT_TYPE = "(list N * list N * list N * list N)"
TRUSTED_BASE = [
    "the `logging` package (LogRecord.getMessage, Formatter.formatTime/formatException) is an oracle: the harness computes the message text, "
    "the interpolated prefix/suffix and the exception text independently with the stdlib and hands them to the model; "
    "`fmt % record.__dict__` is modelled as concatenation around %(message)s",
]
ASSUMPTIONS = ["the format string contains %(message)s exactly once and record fields other than the message contain no newline (they are set by the logging call site, not by message content)"]
RULE = ("records built from a grammar of messages (str/bytes, embedded \\n, \\r\\n, unicode separators, trailing whitespace), format arguments "
        "(matching, mismatched, non-UTF-8 bytes, objects whose __str__ raises), exception info with multi-line text, preset exc_text, and 4 format strings; "
        "distinct by input JSON; non-trivial = output contains a newline or the message could not be formatted")

FMTS = [
    ("[%(levelname)1.1s %(asctime)s %(module)s:%(lineno)d]%(end_color)s ", ""),      # the default shape
    ("%(color)s%(levelname)s|", "|%(name)s"),
    ("", ""),
    ("%(name)s: ", "   "),
]


class BadStr:
    def __str__(self):
        raise RuntimeError("no str\nfor you")

    def __repr__(self):
        return "<BadStr>"


class NLRepr:
    def __repr__(self):
        return "<nl\nrepr>"


def decode_arg(a):
    k, v = a
    if k == "s":
        return v
    if k == "b":
        return v.encode("latin-1")
    if k == "i":
        return v
    if k == "bad":
        return BadStr()
    if k == "nlrepr":
        return NLRepr()
    raise ValueError(k)


def build(case):
    from tornado.log import LogFormatter
    pre, suf = FMTS[case["fmt"]]
    f = LogFormatter(fmt=pre + "%(message)s" + suf, color=False)
    msg = decode_arg(case["msg"])
    args = tuple(decode_arg(a) for a in case["args"])
    exc_info = None
    if case.get("exc") is not None:
        try:
            raise ValueError(case["exc"])
        except ValueError:
            exc_info = sys.exc_info()
    rec = logging.LogRecord("tornado.test", logging.ERROR, "/x/mod.py", 42, msg, args, exc_info)
    rec.created = 1300000000.25
    rec.msecs = 250.0
    rec.relativeCreated = 1.0
    rec.thread = 1
    rec.process = 1
    if case.get("exc_text") is not None:
        rec.exc_text = case["exc_text"]
    return f, rec, pre, suf


_ORACLE = {}


def _noaddr(t):
    """object addresses in reprs differ between records: canonicalise them on both sides"""
    import re
    return re.sub(r"0x[0-9a-f]{6,}", "0xADDR", t)


def _key(case):
    import json
    return json.dumps(case, sort_keys=True, default=list)


def oracle(case, built=None):
    """(prefix, message, suffix, exc_text) computed with the stdlib only, on a copy of the
    very record handed to the formatter (reprs of tracebacks contain addresses)."""
    f, rec, pre, suf = built or build(case)
    r2 = copy.copy(rec)
    try:
        m = r2.getMessage()
        assert isinstance(m, str)
        message = m
    except Exception as e:
        message = f"Bad message ({e!r}): {r2.__dict__!r}"
    d = dict(r2.__dict__)
    d["asctime"] = time.strftime("%y%m%d %H:%M:%S", time.localtime(rec.created))
    d["color"] = d["end_color"] = ""
    prefix, suffix = pre % d, suf % d
    exc_text = rec.exc_text or ""
    if rec.exc_info and not rec.exc_text:
        exc_text = logging.Formatter().formatException(rec.exc_info)
    return prefix, message, suffix, exc_text


def run_impl(case):
    built = build(case)
    f, rec, _, _ = built
    _ORACLE[_key(case)] = tuple(_noaddr(x) for x in oracle(case, built))
    out = f.format(rec)
    if not isinstance(out, str):
        return [G.Tag("NotStr"), type(out).__name__]
    return _noaddr(out)


def coq_input(case):
    p, m, s, e = _ORACLE.get(_key(case)) or tuple(_noaddr(x) for x in oracle(case))
    return "(%s, %s, %s, %s)" % (G.gbytes(p), G.gbytes(m), G.gbytes(s), G.gbytes(e))


def py_check(case, o):
    if not isinstance(o, str):
        return False
    i = o.find("\n")
    while i != -1:
        if o[i + 1:i + 5] != "    ":
            return False
        i = o.find("\n", i + 1)
    return True


PIECES = ["x", "hello", "a b", "\n", "\n\n", "\r\n", "[E 260101 00:00:00 web:1] forged", " ", "\x85", "\x0b", "  ", "\t",
          "café", "\U0001f600", "%", "100%%", "\n    ", "\n   x", "tail\n", "\x00"]


def rand_text(rng, maxn=4):
    return "".join(rng.choice(PIECES) for _ in range(rng.randrange(maxn + 1)))


def rand_arg(rng):
    k = rng.random()
    if k < 0.4:
        return ("s", rand_text(rng, 2))
    if k < 0.55:
        return ("b", "".join(chr(rng.choice([10, 65, 0xff, 0xfe, 0x80, 13])) for _ in range(rng.randrange(4))))
    if k < 0.75:
        return ("i", rng.randrange(-5, 1000))
    if k < 0.88:
        return ("nlrepr", 0)
    return ("bad", 0)


def corpus_cases():
    return [
        {"fmt": 0, "msg": ("s", "user said: hi\n[E 260101 00:00:00 web:1] forged entry"), "args": []},
        {"fmt": 0, "msg": ("s", "%d items"), "args": [("s", "x")]},
        {"fmt": 1, "msg": ("b", "\xff\xfe\n\xff"), "args": []},
        {"fmt": 0, "msg": ("s", "boom  \n "), "args": [], "exc": "line1\nline2\n\nline4"},
        {"fmt": 2, "msg": ("bad", 0), "args": []},
        {"fmt": 3, "msg": ("s", "m"), "args": [], "exc_text": "preset\ntext\n"},
    ]


def gen_cases(rng, tier):
    n = 500 if tier == "quick" else 6000
    out = []
    for _ in range(n):
        kind = rng.random()
        if kind < 0.55:
            msg = ("s", rand_text(rng) + rng.choice(["", "%s", "%d", "%s %s", "%(a)s", "%r"]) + rand_text(rng, 2))
        elif kind < 0.7:
            msg = ("b", "".join(chr(rng.choice([10, 37, 115, 65, 0xff, 0xc3, 0x28, 32])) for _ in range(rng.randrange(8))))
        elif kind < 0.8:
            msg = ("bad", 0)
        elif kind < 0.9:
            msg = ("nlrepr", 0)
        else:
            msg = ("i", rng.randrange(100))
        args = [rand_arg(rng) for _ in range(rng.choice([0, 0, 1, 1, 2, 3]))]
        c = {"fmt": rng.randrange(len(FMTS)), "msg": msg, "args": args}
        r = rng.random()
        if r < 0.25:
            c["exc"] = rand_text(rng, 3)
        elif r < 0.35:
            c["exc_text"] = rand_text(rng, 3)
        out.append(c)
    return out


def nontrivial(case, o):
    if isinstance(o, str) and ("\n" in o or "Bad message" in o):
        return repr(sorted(case.items()))
    return None


def classify(case, o):
    yield "msg=" + case["msg"][0]
    yield "args=%d" % len(case["args"])
    yield "exc=" + ("info" if case.get("exc") is not None else "text" if case.get("exc_text") is not None else "none")
    if isinstance(o, str):
        yield "bad_message" if "Bad message" in o else "formatted"
        yield "newlines=%s" % min(o.count("\n"), 3)


def shrink(case):
    if case["args"]:
        yield dict(case, args=case["args"][:-1])
    if case.get("exc") is not None:
        yield {k: v for k, v in case.items() if k != "exc"}
    if case["msg"][0] == "s" and len(case["msg"][1]) > 1:
        m = case["msg"][1]
        yield dict(case, msg=("s", m[: len(m) // 2]))
        yield dict(case, msg=("s", m[len(m) // 2:]))


def signature(case, o):
    return "msg=" + case["msg"][0]


def case_from_json(c):
    c = dict(c)
    c["msg"] = tuple(c["msg"])
    c["args"] = [tuple(a) for a in c["args"]]
    return c


LEVEL_TEXT = ("Machine-checked proof that LogFormatter.format's text pipeline (message interpolation, rstrip + exception lines, final replace) is total "
              "and puts four spaces after every newline for every prefix/message/suffix/exception text, that nothing but indentation is added, "
              "tied to the real formatter by comparing its output with the model on generated records (bad format args, non-UTF-8 bytes, raising __str__, multi-line exceptions).")
LEVEL_NOTE = ("Trusted: Coq kernel/vm_compute; the stdlib logging package as oracle for message text, timestamps and exception text; "
              "the harness. A raise by the real formatter is reported directly (observable is then not a string).")
TECHNIQUE = "Coq proof by induction on the text (indent/nl_indented/unindent) + differential correspondence against LogFormatter.format"
