"""C46 — Locale.friendly_number / Locale.format_date (relative branch) vs the Gallina model.

A case is either
  {"k": "num", "code": <locale code>, "v": <int>}
  {"k": "date", "now": <us since epoch>, "delta": <date - now, us>, "gmt": <minutes>,
   "rel": bool, "sh": bool, "full": bool, "form": "aware" | "naive" | "int" | "float"}
  {"k": "day", "t": <us since epoch>, "gmt": <minutes>, "dow": bool, "form": "aware" | "naive"}      (format_day)
  {"k": "list", "code": <locale code>, "parts": [<str>...]}                                         (Locale.list)
  {"k": "closest", "sup": [<supported codes incl. en_US>], "codes": [<requested codes>]}            (Locale.get_closest)
Date cases may carry "code" (default en_US) selecting the 12 h / zh_CN / 24 h clock.
The clock is frozen by replacing the `datetime` name inside tornado.locale with a shim whose
`datetime.now()` returns the case's `now`.
"""
import datetime
import os
import re
import types

from harness import gallina as G
from harness.framework import REPO, COQ

ID = "C46"
COQ_DIRS = ["C46", "Gen"]
PROPERTY_FILE = "C46/Property.v"
RUN_IMPORTS = "From TV Require Import C46.Model C46.Run."
RUN_FN = "run_case"
CHECK_FN = "check_case"
INPUT_TYPE = "c46_input"

EN_CODES = ("en", "en_US")
US = 1000000
DAY = 86400 * US
EPOCH = datetime.datetime(1970, 1, 1, tzinfo=datetime.timezone.utc)


def pre_build():
    import importlib
    import sys
    sys.path.insert(0, os.path.join(os.path.dirname(COQ), "translators"))
    import c46_src
    importlib.reload(c46_src)
    c46_src.emit(REPO, os.path.join(COQ, "Gen", "C46_src.v"))


# ---------------------------------------------------------------- implementation side
_state = {}


def _locale_mod():
    if "mod" not in _state:
        import tornado.locale as L
        real = datetime.datetime

        class FrozenDateTime(real):
            @classmethod
            def now(cls, tz=None):
                return _state["now"]

        _state["mod"] = L
        _state["shim"] = types.SimpleNamespace(datetime=FrozenDateTime, timedelta=datetime.timedelta,
                                               timezone=datetime.timezone, date=datetime.date)
        _state["locales"] = {}
    return _state["mod"]


def _locale(code):
    L = _locale_mod()
    if code not in _state["locales"]:
        _state["locales"][code] = L.CSVLocale(code, {})
    return _state["locales"][code]


_MONTHS = "January|February|March|April|May|June|July|August|September|October|November|December"
_DAYS = "Monday|Tuesday|Wednesday|Thursday|Friday|Saturday|Sunday"
_TIME = r"(?:[1-9]|1[0-2]):[0-5]\d (?:am|pm)"
_DOM = r"(?:[1-9]|[12]\d|3[01])"
_CLASSES = [
    ("time", r"%s" % _TIME),
    ("yesterday_at", r"yesterday at %s" % _TIME),
    ("yesterday", r"yesterday"),
    ("weekday_at", r"(?:%s) at %s" % (_DAYS, _TIME)),
    ("weekday", r"(?:%s)" % _DAYS),
    ("monthday_at", r"(?:%s) %s at %s" % (_MONTHS, _DOM, _TIME)),
    ("monthday", r"(?:%s) %s" % (_MONTHS, _DOM)),
    ("full_at", r"(?:%s) %s, \d{1,4} at %s" % (_MONTHS, _DOM, _TIME)),
    ("full", r"(?:%s) %s, \d{1,4}" % (_MONTHS, _DOM)),
]
_CLASSES = [(t, re.compile(p)) for t, p in _CLASSES]


def classify_output(s):
    for tag, rx in _CLASSES:
        if rx.fullmatch(s):
            return G.Tag(tag)
    return s            # relative phrases (and anything unrecognised) stay text


def run_impl(case):
    k = case["k"]
    if k == "num":
        r = _locale(case["code"]).friendly_number(case["v"])
        assert isinstance(r, str)
        return r
    L = _locale_mod()
    if k == "list":
        r = _locale(case["code"]).list(list(case["parts"]))
        assert isinstance(r, str)
        return r
    if k == "closest":
        saved = L._supported_locales
        L._supported_locales = frozenset(case["sup"])
        try:
            r = L.Locale.get_closest(*case["codes"]).code
        finally:
            L._supported_locales = saved
        assert isinstance(r, str)
        return r
    if k == "day":
        d = EPOCH + datetime.timedelta(microseconds=case["t"])
        if case.get("form") == "naive":
            d = d.replace(tzinfo=None)
        r = _locale("en_US").format_day(d, gmt_offset=case["gmt"], dow=case["dow"])
        assert isinstance(r, str)
        return r
    now = EPOCH + datetime.timedelta(microseconds=case["now"])
    date = now + datetime.timedelta(microseconds=case["delta"])
    form = case.get("form", "aware")
    t = case["now"] + case["delta"]
    if form == "naive":
        arg = date.replace(tzinfo=None)
    elif form == "int":
        assert t % US == 0
        arg = t // US
    elif form == "float":
        arg = t / US
        assert int(round(arg * US)) == t and (t % US) in (0, 250000, 500000, 750000)
    else:
        arg = date
    _state["now"] = now
    saved = L.datetime
    L.datetime = _state["shim"]
    try:
        r = _locale(case.get("code", "en_US")).format_date(arg, gmt_offset=case["gmt"], relative=case["rel"],
                                                             shorter=case["sh"], full_format=case["full"])
    finally:
        L.datetime = saved
    assert isinstance(r, str)
    return r


def _clock(code):
    return "C12" if code in EN_CODES else "CZh" if code == "zh_CN" else "C24"


def _gtexts(xs):
    return G.glist([G.gbytes(x) for x in xs], "(list N)")


def coq_input(case):
    k = case["k"]
    if k == "num":
        return "(INum %s %s)" % (G.gbool(case["code"] in EN_CODES), G.gz(case["v"]))
    if k == "day":
        return "(IDay %s %s %s)" % (G.gz(case["t"]), G.gz(case["gmt"]), G.gbool(case["dow"]))
    if k == "list":
        return "(IList %s %s)" % (G.gbool(case["code"].startswith("fa")), _gtexts(case["parts"]))
    if k == "closest":
        return "(IClosest %s %s)" % (_gtexts(case["sup"]), _gtexts(case["codes"]))
    return "(IDate %s %s %s %s %s %s %s)" % (_clock(case.get("code", "en_US")), G.gz(case["now"]), G.gz(case["delta"]), G.gz(case["gmt"]),
                                             G.gbool(case["rel"]), G.gbool(case["sh"]), G.gbool(case["full"]))


# ---------------------------------------------------------------- independent Python oracle
_PHRASE = re.compile(r"(0|[1-9]\d*) (second|minute|hour)(s?) ago")
_UNIT = {"second": 1, "minute": 60, "hour": 3600}


def py_check(case, o):
    if not isinstance(o, str) or isinstance(o, G.Tag):
        return False
    if case["k"] in ("day", "list"):
        return True
    if case["k"] == "closest":
        return o in case["sup"] or o == "en_US"
    if case["k"] == "num":
        v = case["v"]
        if case["code"] in EN_CODES:
            if not re.fullmatch(r"-?(0|[1-9]\d{0,2}(,\d{3})*)", o) or o == "-0":
                return False
            return int(o.replace(",", "")) == v
        return re.fullmatch(r"-?(0|[1-9]\d*)", o) is not None and o != "-0" and int(o) == v
    m = _PHRASE.fullmatch(o)
    if not m:
        return not o.endswith(" ago")     # an absolute date text
    n, u, plural = int(m.group(1)), _UNIT[m.group(2)], m.group(3) == "s"
    delta = case["delta"]
    if delta > 60 * US:
        return False
    elapsed = max(0, -delta) // US
    return 2 * abs(n * u - elapsed) <= u and plural == (n != 1)


# ---------------------------------------------------------------- cases
def num(code, v):
    return {"k": "num", "code": code, "v": v}


def date(now, delta, gmt=0, rel=True, sh=False, full=False, form="aware", code="en_US"):
    t = now + delta
    if form == "int" and t % US != 0:
        form = "aware"
    if form == "float" and ((t % US) not in (0, 250000, 500000, 750000) or abs(t) > 2 ** 52):
        form = "naive"
    return {"k": "date", "now": now, "delta": delta, "gmt": gmt, "rel": rel, "sh": sh, "full": full, "form": form, "code": code}


def day(t, gmt=0, dow=True, form="aware"):
    return {"k": "day", "t": t, "gmt": gmt, "dow": dow, "form": form}


def lst(code, parts):
    return {"k": "list", "code": code, "parts": list(parts)}


def closest(sup, codes):
    sup = list(sup)
    if "en_US" not in sup:
        sup.append("en_US")          # load_translations always adds the default locale
    return {"k": "closest", "sup": sup, "codes": list(codes)}


def _us(y, mo, d, h=0, mi=0, s=0, us=0):
    dt = datetime.datetime(y, mo, d, h, mi, s, us, tzinfo=datetime.timezone.utc) - EPOCH
    return (dt.days * 86400 + dt.seconds) * US + dt.microseconds


NOWS = [
    _us(2026, 3, 1, 0, 0, 30, 500000),
    _us(2024, 2, 29, 23, 59, 59, 999999),
    _us(2000, 1, 1),
    _us(2025, 12, 31, 12, 0, 0, 1),
    _us(2038, 1, 19, 3, 14, 8),
    _us(1999, 7, 4, 6, 30, 15, 250000),
]


def corpus_cases():
    n0 = NOWS[0]
    return [
        # witnesses of the two defects recorded in DESIGN.md section 8 (since fixed in /repo)
        num("en_US", -123456), num("en", -123456), num("en_US", -123), num("en_US", -1000),
        date(n0, DAY + 30 * US), date(n0, DAY + 30 * US, form="naive"), date(n0, 5 * DAY + 59 * US + 999999),
        date(n0, 365 * DAY + 1),
        # locale_test.py's examples
        num("en_US", 1000000), date(n0, -2 * US), date(n0, -120 * US), date(n0, -7200 * US),
        date(n0, -DAY, sh=True), date(n0, -2 * DAY, sh=True), date(n0, -300 * DAY, sh=True), date(n0, -500 * DAY, sh=True),
        date(_us(2013, 4, 28, 18, 35), 0, full=True), day(_us(2013, 4, 28, 18, 35)), day(_us(2013, 4, 28, 18, 35), dow=False),
        lst("en_US", []), lst("en_US", ["A"]), lst("en_US", ["A", "B"]), lst("en_US", ["A", "B", "C"]), lst("fa", ["A", "B", "C"]),
        closest(["en_US", "pt_BR", "fr"], ["pt-br"]), closest(["en_US", "pt_BR", "fr"], ["FR_ca", "de"]), closest(["es"], []),
    ]


SEC_EDGES = [0, 1, 2, 48, 49, 50, 51, 59, 60, 61, 89, 90, 91, 119, 120, 149, 150, 151, 209, 210, 211,
             2909, 2910, 2911, 2969, 2970, 2971, 2999, 3000, 3001, 3599, 3600, 3601, 5399, 5400, 5401, 8999, 9000,
             9001, 12599, 12600, 12601, 16199, 16200, 43199, 43200, 84599, 84600, 84601, 86399, 86400, 86401,
             86400 + 30, 86400 + 3000, 2 * 86400 - 1, 2 * 86400, 2 * 86400 + 1, 5 * 86400 - 1, 5 * 86400,
             334 * 86400 - 1, 334 * 86400, 400 * 86400, 3653 * 86400, 20000 * 86400]
US_EDGES = [0, 1, 499999, 500000, 999999]
FUT_EDGES = [1, 999999, US, 30 * US, 59 * US, 60 * US - 1, 60 * US, 60 * US + 1, 61 * US, 3600 * US,
             DAY - 1, DAY, DAY + 1, DAY + 30 * US, DAY + 59 * US + 999999, DAY + 60 * US, 2 * DAY + 5 * US,
             30 * DAY + 10 * US, 365 * DAY + 59 * US, 3653 * DAY + US]
GMTS = [0, 0, 0, 60, -60, 480, -480, 330, -720, 840, -1, 1439, -1439]
FORMS = ["aware", "aware", "naive", "int", "float"]


def _flags(rng):
    return dict(rel=rng.random() < 0.75, sh=rng.random() < 0.3, full=rng.random() < 0.15)


def _rand_now(rng):
    return rng.choice(NOWS) if rng.random() < 0.5 else rng.randrange(_us(1971, 1, 1), _us(2200, 1, 1))


def _rand_delta(rng):
    """log-uniform magnitude from 1 us to ~60 years; 75 % past"""
    mag = int(10 ** rng.uniform(0, 15.28))
    r = rng.random()
    if r < 0.3:
        mag -= mag % US                               # whole seconds
    elif r < 0.4:
        mag = mag - mag % US + rng.choice(US_EDGES)
    if rng.random() < 0.25:
        mag = mag - mag % (30 * US) + rng.choice([0, -1, 1, US, -US])   # next to minute/hour rounding ties
        mag = abs(mag)
    return -mag if rng.random() < 0.75 else mag


def gen_cases(rng, tier):
    out = []
    quick = tier != "thorough"
    # ---------------- numbers
    codes = ["en_US", "en", "de_DE", "fr_FR", "en_GB", "zh_CN", "EN", ""]
    span = 130 if quick else 12000
    for v in range(-span, span + 1):
        c = num("en_US" if (v % 5) else "en", v)
        out.append(c)
    for k in range(1, 31):
        for d in (-2, -1, 0, 1, 2):
            for s in (1, -1):
                out.append(num(rng.choice(EN_CODES), s * (10 ** k + d)))
    for s in (1, -1):
        for base in (2 ** 31, 2 ** 32, 2 ** 63, 2 ** 64, 10 ** 18, 10 ** 40):
            for d in (-1, 0, 1):
                out.append(num("en_US", s * (base + d)))
    for _ in range(300 if quick else 2000):
        nd = rng.randrange(1, 22)
        v = rng.randrange(10 ** (nd - 1), 10 ** nd)
        if rng.random() < 0.2:                       # many zeros inside groups
            v -= v % (10 ** rng.randrange(1, nd + 1))
            v = v or 10 ** (nd - 1)
        out.append(num(rng.choice(EN_CODES), v if rng.random() < 0.5 else -v))
    for _ in range(60 if quick else 600):
        nd = rng.randrange(1, 22)
        v = rng.randrange(-10 ** nd, 10 ** nd)
        out.append(num(rng.choice(codes[2:]), v))
    # ---------------- dates: boundaries
    for e in SEC_EDGES:
        for us in US_EDGES:
            if e == 0 and us == 0:
                out.append(date(rng.choice(NOWS), 0, gmt=rng.choice(GMTS), form=rng.choice(FORMS)))
                continue
            out.append(date(rng.choice(NOWS), -(e * US + us), gmt=rng.choice(GMTS), form=rng.choice(FORMS)))
        out.append(date(rng.choice(NOWS), -(e * US), gmt=rng.choice(GMTS), form=rng.choice(FORMS), **_flags(rng)))
    for f in FUT_EDGES:
        for rel in (True, False):
            out.append(date(rng.choice(NOWS), f, gmt=rng.choice(GMTS), rel=rel, form=rng.choice(FORMS)))
        out.append(date(rng.choice(NOWS), f, gmt=rng.choice(GMTS), form=rng.choice(FORMS), **_flags(rng)))
    # yesterday / weekday boundary depends on the local time of day: sweep gmt offsets on 24h..48h
    for now in NOWS[:3] if quick else NOWS:
        for gmt in (0, 1, -1, 240, -240, 719, -719):
            for e in (86400, 86400 + 29, 86400 + 31, 86400 + 3600 * 5, 86400 + 3600 * 12, 86400 + 3600 * 18, 2 * 86400 - 1):
                out.append(date(now, -e * US, gmt=gmt, rel=True, sh=rng.random() < 0.5))
    # ---------------- dates: elapsed whole seconds inside one day (the relative branch)
    if quick:
        secs = set(range(0, 215))
        for k in range(210, 3100, 30):
            secs.update((k - 1, k, k + 1))
        for k in range(1800, 86400, 1800):
            secs.update((k - 1, k, k + 1))
        secs = sorted(secs)
    else:
        secs = range(0, 86400)
    for e in secs:
        us = rng.choice(US_EDGES) if rng.random() < 0.5 else rng.randrange(US)
        c = date(rng.choice(NOWS), -(e * US + us), gmt=rng.choice(GMTS), form=rng.choice(FORMS))
        if e > 7300 and e % 4 and min(e % 1800, 1800 - e % 1800) > 2:
            c["nocoq"] = True      # implementation + py_check only (see coq_select)
        out.append(c)
    # ---------------- dates: random
    date_codes = ["en_US", "en_US", "en_US", "en", "zh_CN", "de_DE", "fr_FR"]
    for _ in range(500 if quick else 4000):
        out.append(date(_rand_now(rng), _rand_delta(rng), gmt=rng.choice(GMTS) if rng.random() < 0.7 else rng.randrange(-900, 901),
                        form=rng.choice(FORMS), code=rng.choice(date_codes), **_flags(rng)))
    # ---------------- absolute texts: every hour of a day x clock kinds; calendar boundaries
    for code in ("en_US", "zh_CN", "de_DE"):
        for h in range(24):
            t0 = _us(2021, 7, 4, h, rng.choice([0, 5, 9, 10, 59]), rng.randrange(60), rng.randrange(US))
            out.append(date(t0 + 1000 * DAY, t0 - (t0 + 1000 * DAY), code=code, sh=False, rel=rng.random() < 0.5))
    cal = []
    for y in (1, 2, 4, 100, 400, 1582, 1600, 1899, 1900, 1901, 1969, 1970, 1971, 1999, 2000, 2001, 2023, 2024, 2025, 2038, 2100, 2400, 9998):
        for (mo, d) in ((1, 1), (1, 31), (2, 28), (3, 1), (6, 30), (7, 1), (12, 31)):
            if y == 1 and (mo, d) == (1, 1):
                continue
            cal.append(_us(y, mo, d, rng.randrange(24), rng.randrange(60), rng.randrange(60), rng.randrange(US)))
        if y % 4 == 0 and (y % 100 != 0 or y % 400 == 0):
            cal.append(_us(y, 2, 29, 12))
    for t0 in cal:
        out.append(day(t0, gmt=rng.choice([0, 0, 600, -600]), dow=rng.random() < 0.7, form=rng.choice(["aware", "naive"])))
        if 1950 * 365 * DAY < t0 + 719528 * DAY < 2300 * 365 * DAY:    # keep `now` inside a comfortable range
            out.append(date(t0 + 400 * DAY, -400 * DAY, gmt=rng.choice(GMTS), sh=rng.random() < 0.5, code=rng.choice(date_codes)))
    lo, hi = _us(2, 1, 1), _us(9998, 12, 31)
    for _ in range(150 if quick else 3000):
        t0 = rng.randrange(lo, hi) if rng.random() < 0.5 else rng.randrange(_us(1900, 1, 1), _us(2200, 1, 1))
        out.append(day(t0, gmt=rng.choice(GMTS) if rng.random() < 0.6 else rng.randrange(-1439, 1440), dow=rng.random() < 0.7,
                       form=rng.choice(["aware", "naive"])))
    if not quick:     # every civil day of several years (leap, non-leap, century, 400-year) at a random time
        for y in (1899, 1900, 1901, 1999, 2000, 2001, 2023, 2024, 2100):
            d0 = _us(y, 1, 1)
            for k in range(366):
                out.append(day(d0 + k * DAY + rng.randrange(DAY), dow=True))
    # ---------------- Locale.list
    words = ["A", "B", "C", "apples", "pears and plums", "x, y", "", " ", "and", "%(last)s", "50%", "\u0633\u06cc\u0628", "\u00e9t\u00e9"]
    for n in range(0, 6):
        for _ in range(6 if quick else 40):
            out.append(lst(rng.choice(["en_US", "en_US", "fa", "fa_IR", "de_DE", "far"]), [rng.choice(words) for _ in range(n)]))
    # ---------------- Locale.get_closest
    sups = [["en_US"], ["en_US", "pt_BR", "fr", "es", "zh_CN"], ["en_US", "en", "fr_FR", "fr"], ["de", "de_DE", "DE"], ["en_US", "pt", "x_Y", "", "_"]]
    req = ["", "en", "en_US", "en-us", "EN_us", "En", "pt-br", "PT_br", "pt_PT", "pt", "fr", "FR", "fr_CA", "fr-fr", "zh-Hans-CN", "zh_cn",
           "zh-CN", "de", "DE", "de-at", "es_", "_es", "_", "-", "__", "x-y", "X_y", "a_b_c", "klingon", "e"]
    for sup in sups:
        for c in req:
            out.append(closest(sup, [c]))
    for _ in range(120 if quick else 2500):
        sup = rng.choice(sups)
        n = rng.choice([0, 1, 2, 2, 3, 4])
        cs = []
        for _ in range(n):
            if rng.random() < 0.7:
                cs.append(rng.choice(req))
            else:
                cs.append("".join(rng.choice("enptfrENPTBR_-_x") for _ in range(rng.randrange(0, 7))))
        out.append(closest(sup, cs))
    return out


def coq_select(i, case):
    """thorough tier: every case runs through the implementation and the Python oracle; the exhaustive
    day-of-seconds sweep is evaluated in Coq on a dense subset (every second <= 7300, all hour ties/thresholds +-2 and
    every 4th second beyond) to keep the tier inside its time budget"""
    return not case.get("nocoq")


def nontrivial(case, o):
    if case["k"] == "num":
        return ("num", case["code"] in EN_CODES, case["v"])
    if case["k"] == "day":
        return ("day", case["t"], case["gmt"], case["dow"])
    if case["k"] == "list":
        return ("list", case["code"].startswith("fa"), tuple(case["parts"])) if case["parts"] else None
    if case["k"] == "closest":
        return ("closest", tuple(case["sup"]), tuple(case["codes"])) if case["codes"] else None
    return ("date", _clock(case.get("code", "en_US")), case["now"], case["delta"], case["gmt"], case["rel"], case["sh"], case["full"])


def classify(case, o):
    if case["k"] == "num":
        v = case["v"]
        yield "num:" + ("english" if case["code"] in EN_CODES else "other-locale")
        yield "num:sign=" + ("-" if v < 0 else "0" if v == 0 else "+")
        nd = len(str(abs(v)))
        yield "num:digits=" + ("1-3" if nd <= 3 else "4-6" if nd <= 6 else "7-12" if nd <= 12 else "13-19" if nd <= 19 else "20+")
        yield "num:digits%%3=%d" % (nd % 3)
        return
    if case["k"] == "day":
        yield "day:dow=%s" % case["dow"]
        yield "day:gmt=" + ("0" if case["gmt"] == 0 else "+" if case["gmt"] > 0 else "-")
        return
    if case["k"] == "list":
        yield "list:n=%d" % len(case["parts"])
        yield "list:fa=%s" % case["code"].startswith("fa")
        return
    if case["k"] == "closest":
        yield "closest:n=%d" % len(case["codes"])
        yield "closest:result=" + ("default-fallthrough" if o == "en_US" and "en_US" not in [c.replace("-", "_") for c in case["codes"]] else "matched")
        return
    d = case["delta"]
    yield "date:" + ("future>=60s" if d >= 60 * US else "future<60s" if d > 0 else "now" if d == 0 else
                     "past<50s" if -d < 50 * US else "past<50min" if -d < 3000 * US else "past<1d" if -d < DAY else
                     "past<2d" if -d < 2 * DAY else "past<5d" if -d < 5 * DAY else "past<334d" if -d < 334 * DAY else "past>=334d")
    oc = classify_output(o) if isinstance(o, str) else o
    yield "date:clock=" + _clock(case.get("code", "en_US"))
    yield "date:out=" + (str(oc) if isinstance(oc, G.Tag) else "absolute-other-clock" if not (isinstance(o, str) and _PHRASE.fullmatch(o)) else "relative-" + (_PHRASE.fullmatch(o).group(2) if isinstance(o, str) and _PHRASE.fullmatch(o) else "?"))
    yield "date:flags=%s%s%s" % ("R" if case["rel"] else "-", "S" if case["sh"] else "-", "F" if case["full"] else "-")
    yield "date:form=" + case.get("form", "aware")
    yield "date:subsecond=" + ("yes" if d % US else "no")


def signature(case, o):
    if case["k"] in ("day", "list", "closest"):
        return "locale-helper:" + case["k"]
    if case["k"] == "num":
        if isinstance(o, str) and o.startswith("-,"):
            return "friendly_number:comma-after-sign"
        return "friendly_number:bad-grouping"
    if isinstance(o, str) and _PHRASE.fullmatch(o):
        if case["delta"] > 60 * US:
            return "format_date:future-date-as-relative-past"
        return "format_date:number-not-nearest"
    return "format_date:unrecognised-output"


def shrink(case):
    if case["k"] == "num":
        v = case["v"]
        if case["code"] != "en_US" and case["code"] in EN_CODES:
            yield dict(case, code="en_US")
        for w in (v // 1000 if v >= 0 else -((-v) // 1000), v // 10 if v >= 0 else -((-v) // 10), -v if v < 0 else v):
            if w != v:
                yield dict(case, v=w)
        return
    if case["k"] == "day":
        if case["gmt"]:
            yield dict(case, gmt=0)
        if case["t"] % DAY:
            yield dict(case, t=case["t"] - case["t"] % DAY)
        return
    if case["k"] == "list":
        for j in range(len(case["parts"])):
            yield dict(case, parts=case["parts"][:j] + case["parts"][j + 1:])
        return
    if case["k"] == "closest":
        for j in range(len(case["codes"])):
            yield dict(case, codes=case["codes"][:j] + case["codes"][j + 1:])
        return
    if case.get("code", "en_US") != "en_US":
        yield dict(case, code="en_US")
    if case.get("form", "aware") != "aware":
        yield dict(case, form="aware")
    if case["gmt"]:
        yield dict(case, gmt=0)
    if case["sh"]:
        yield dict(case, sh=False)
    if case["full"]:
        yield dict(case, full=False)
    if case["now"] != NOWS[2]:
        yield dict(case, now=NOWS[2])
    d = case["delta"]
    if d % US:
        yield dict(case, delta=d - d % US)
    if abs(d) >= DAY:
        yield dict(case, delta=(abs(d) % DAY) * (1 if d > 0 else -1))
        yield dict(case, delta=(abs(d) - DAY) * (1 if d > 0 else -1))
    if abs(d) > 60 * US:
        yield dict(case, delta=int(d / 2) - int(d / 2) % US)


TRUSTED_BASE = [
    "translators/c46_src.py (fail-closed Python-ast reader of Locale.friendly_number and of the relative block / clock-skew guard of "
    "Locale.format_date); its while-loop fuel (len(s)+1) and its reading of round(x / 60.0) as round-half-even of the rational",
    "py_round_div models round(int / float) as round-half-to-even of the exact quotient: IEEE-double division is exact on the ties and "
    "far (>= 1/3600) from a tie otherwise for 0 <= seconds < 86400; validated on every whole second of a day in the thorough tier",
    "datetime/timedelta arithmetic is modelled as integer microseconds (floor division for .days/.seconds); day-of-month equality in the "
    "'yesterday' test is modelled as same-civil-day (equivalent there because the two instants are < 24 h apart)",
    "the harness freezes the clock by shadowing the name `datetime` inside tornado.locale, and classifies absolute (non-relative) outputs "
    "by regular expression into the format-string classes the model predicts; their text (month, weekday, time) is not modelled",
    "translate() is the identity CSVLocale (English singular/plural selection count != 1)",
]
ASSUMPTIONS = ["friendly_number receives a Python int; format_date dates stay inside datetime's year range"]
RULE = ("numbers: every integer in a window around 0, +-2 around every power of ten up to 10^30 and machine-word boundaries, random by digit count, "
        "English and non-English codes; dates: boundary elapsed times x sub-second parts, future offsets around the 60 s guard, a gmt-offset sweep of the "
        "yesterday window, every (quick: boundary) whole second of a day, log-uniform random offsets 1 us..60 years with random flags/argument form; "
        "distinct by model input")
LEVEL_TEXT = ("Machine-checked (Coq) proofs over a Gallina model of Locale.friendly_number and of Locale.format_date's branch selection: for every "
              "integer the English grouped text reads back (independent parser: sign outside, first group 1-3 digits, later groups exactly 3, no leading "
              "zero) as that integer; for every now/date/gmt_offset/flag combination a date >= 60 s in the future is never given a relative phrase, and "
              "the number in a relative phrase n satisfies 2*|n*unit - elapsed_whole_seconds| <= unit (elapsed < 1 day), with correct singular/plural. "
              "friendly_number and the relative-phrase arithmetic are regenerated from locale.py by a fail-closed ast translator and proved equal to the "
              "model; model and implementation are compared on every generated case with a frozen clock.")
LEVEL_NOTE = ("Trusted: Coq kernel/vm_compute; the ast translator; float rounding abstraction (round-half-even of the rational); integer-microsecond "
              "datetime model; absolute date texts are only classified, not modelled. Elapsed time is measured in whole seconds (timedelta.seconds), "
              "as in the code; with sub-second precision the number can be off by < 1 s from nearest (proved bound, witness in Property.v).")
TECHNIQUE = "Coq proof (induction on digit lists, div/mod arithmetic by lia) + Python-ast translator with equivalence proof + differential correspondence via vm_compute"
