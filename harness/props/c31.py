"""C31 — routing picks the first matching rule; reverse URLs route back.

One case = one Application configuration + one operation:
  {"handlers": [rule..], "hosts": [[host_pattern, [rule..]], ..], "default_host": str|None, "dflt": bool,
   "op": {"k": "route", "host": H, "uri": U, "xreal": bool}
       | {"k": "reverse", "name": N, "args": [latin-1 str of bytes ..], "host": H}}
  rule = {"k": "path"|"host"|"any", "pat": str, "name": str|None, "h": int}          (leaf: RequestHandler subclass #h)
       | {"k": .., "pat": .., "name": .., "sub": [rule..]}                            (nested router)
All text is code points < 0x800 (pattern / path); args are bytes (latin-1 coded in JSON).
"""
import itertools
import re
import urllib.parse
import warnings

from harness import gallina as G

ID = "C31"
COQ_DIRS = ["C31"]
PROPERTY_FILE = "C31/Property.v"
RUN_IMPORTS = "From TV Require Import C31.Model C31.Spec C31.Run."
RUN_FN = "run_case"
CHECK_FN = "check_case"
INPUT_TYPE = "input"
HAS_SEARCH_TIER = False

Tag = G.Tag

# --------------------------------------------------------------------------
# implementation runner
# --------------------------------------------------------------------------
_classes = {}


def _handler(i):
    from tornado.web import RequestHandler
    if i not in _classes:
        _classes[i] = type("H%d" % i, (RequestHandler,), {"c31_id": i})
    return _classes[i]


def _default_class():
    from tornado.web import RequestHandler
    if "d" not in _classes:
        _classes["d"] = type("DefaultH", (RequestHandler,), {})
    return _classes["d"]


def _mk_rule(r):
    from tornado.routing import Rule, PathMatches, HostMatches, AnyMatches
    from tornado.web import URLSpec
    target = [_mk_rule(x) for x in r["sub"]] if "sub" in r else _handler(r["h"])
    name = r.get("name")
    k = r["k"]
    if k == "path":
        if "sub" not in r and r["h"] % 3 == 0:
            return URLSpec(r["pat"], target, None, name)
        if (len(r["pat"]) + (r.get("h") or 0)) % 2 == 0:
            return (r["pat"], target, None, name) if name is not None else (r["pat"], target)
        return Rule(PathMatches(r["pat"]), target, None, name)
    if k == "pathre":      # precompiled pattern object: Pattern.match semantics, no "$" appended
        return Rule(PathMatches(re.compile(r["pat"])), target, None, name)
    if k == "host":
        return Rule(HostMatches(r["pat"]), target, None, name)
    return Rule(AnyMatches(), target, None, name)


def _mk_app(case):
    from tornado.web import Application
    settings = {}
    if case.get("dflt"):
        settings["default_handler_class"] = _default_class()
    app = Application([_mk_rule(r) for r in case["handlers"]], default_host=case.get("default_host"), **settings)
    for hp, rules in case["hosts"]:
        app.add_handlers(hp, [_mk_rule(r) for r in rules])
    return app


class _Conn:
    context = None


def _route(app, host, uri, xreal):
    from tornado.httputil import HTTPServerRequest, RequestStartLine, HTTPHeaders
    from tornado.web import ErrorHandler
    h = HTTPHeaders()
    h["Host"] = host
    if xreal:
        h["X-Real-Ip"] = "10.0.0.1"
    req = HTTPServerRequest(start_line=RequestStartLine("GET", uri, "HTTP/1.1"), headers=h, connection=_Conn())
    try:
        d = app.find_handler(req)
    except UnicodeEncodeError:
        return Tag("UnicodeEncodeError")
    cls = d.handler_class
    if cls is ErrorHandler and d.handler_kwargs == {"status_code": 404}:
        return Tag("NotFound")
    if cls is _classes.get("d"):
        return Tag("Default")
    return [Tag("Handler"), cls.c31_id, [bytes(a) for a in d.path_args], [[k, bytes(v)] for k, v in d.path_kwargs.items()]]


def _pyarg(i, b):
    """the same byte string, presented as bytes / str / int like callers do"""
    try:
        s = b.decode("utf-8")
    except UnicodeDecodeError:
        return b
    if i % 3 == 1:
        return s
    if i % 3 == 2 and re.fullmatch(r"[1-9][0-9]{0,8}|0", s):
        return int(s)
    return b


def run_impl(case):
    import logging
    logging.getLogger("tornado.application").setLevel(logging.CRITICAL)
    with warnings.catch_warnings():
        warnings.simplefilter("ignore")
        try:
            app = _mk_app(case)
        except (AssertionError, re.error):
            return Tag("ConstructionFailed")     # mixed named / unnamed groups, repeated group name
        op = case["op"]
        if op["k"] == "route":
            return _route(app, op["host"], op["uri"], op.get("xreal", False))
        args = [_pyarg(i, a.encode("latin-1")) for i, a in enumerate(op["args"])]
        try:
            u = app.reverse_url(op["name"], *args)
        except KeyError:
            return Tag("KeyError")
        except AssertionError:
            return Tag("AssertionError")
        except TypeError as e:
            m = str(e)
            if "not enough arguments" in m:
                return Tag("NotEnoughArguments")
            if "not all arguments converted" in m:
                return Tag("NotAllConverted")
            return Tag("BadFormat")
        except ValueError as e:
            if str(e).startswith("Cannot reverse url regex"):
                return Tag("CannotReverse")
            return Tag("BadFormat")
        return [Tag("Url"), u, _route(app, op["host"], u, False)]


# --------------------------------------------------------------------------
# Gallina rendering
# --------------------------------------------------------------------------
def _gstr(s):
    return G.gbytes(s)


def _gname(n):
    return "None" if n is None else "(Some %s)" % _gstr(n)


def _grule(r):
    k = {"path": "KPath", "host": "KHost", "any": "KAny", "pathre": "KPathRe"}[r["k"]]
    if "sub" in r:
        return "(RRNode %s %s %s %s)" % (k, _gstr(r["pat"]), _gname(r.get("name")), G.glist([_grule(x) for x in r["sub"]], "rrule"))
    return "(RRLeaf %s %s %s %s)" % (k, _gstr(r["pat"]), _gname(r.get("name")), G.gn(r["h"]))


def coq_input(case):
    op = case["op"]
    if op["k"] == "route":
        o = "(OpRoute %s %s %s)" % (_gstr(op["host"]), _gstr(op["uri"]), G.gbool(op.get("xreal", False)))
    else:
        o = "(OpReverse %s %s %s)" % (_gstr(op["name"]), G.glist([G.gbytes(a.encode("latin-1")) for a in op["args"]], "(list N)"), _gstr(op["host"]))
    hosts = G.glist(["(%s, %s)" % (_gstr(hp), G.glist([_grule(r) for r in rs], "rrule")) for hp, rs in case["hosts"]], "(str * list rrule)")
    dh = case.get("default_host")
    return "(%s, %s, %s, %s, %s)" % (G.glist([_grule(r) for r in case["handlers"]], "rrule"), hosts,
                                     "(@None str)" if dh is None else "(Some %s)" % _gstr(dh), G.gbool(bool(case.get("dflt"))), o)


# --------------------------------------------------------------------------
# independent Python oracle (re.fullmatch = whole-string matching)
# --------------------------------------------------------------------------
def _leaves(rules, anc):
    for r in rules:
        if "sub" in r:
            yield from _leaves(r["sub"], anc + [r])
        else:
            yield anc, r


def _app_tree(case):
    hosts = [{"k": "host", "pat": hp, "name": None, "sub": rs} for hp, rs in case["hosts"]]
    wild = list(case["handlers"])
    if case.get("default_host") is not None:
        wild += [{"k": "defhost", "pat": hp, "name": None, "sub": rs} for hp, rs in case["hosts"]]
    return hosts + [{"k": "any", "pat": "", "name": None, "sub": wild}]


def _strict(r, case, host_name, path, xreal):
    k = r["k"]
    if k == "any":
        return True
    if k == "host":
        return re.fullmatch(r["pat"], host_name) is not None
    if k == "defhost":
        return (not xreal) and re.fullmatch(r["pat"], case["default_host"]) is not None
    if k == "pathre":
        return re.match(r["pat"], path) is not None
    return re.fullmatch(r["pat"], path) is not None


def _oracle_route(case, host, uri, xreal):
    host_name = host.lower()
    mport = re.match(r"^(.+):(\d+)$", host_name)
    if mport:
        host_name = mport.group(1)
    path = uri.partition("?")[0]
    for anc, leaf in _leaves(_app_tree(case), []):
        if all(_strict(r, case, host_name, path, xreal) for r in anc + [leaf]):
            args, kw = [], []
            if leaf["k"] in ("path", "pathre"):
                m = re.fullmatch(leaf["pat"], path) if leaf["k"] == "path" else re.match(leaf["pat"], path)
                if m.re.groupindex:
                    kw = [[k, urllib.parse.unquote_to_bytes(v)] for k, v in m.groupdict().items()]
                else:
                    args = [urllib.parse.unquote_to_bytes(g) for g in m.groups()]
            return [Tag("Handler"), leaf["h"], args, kw]
    return Tag("Default") if case.get("dflt") else Tag("NotFound")


_SIMPLE = re.compile(r"(?:\\[^A-Za-z0-9()]|[^\\.^$*+?{}\[\]|()]|\([^()]*\))*")


def _simple_url(pat, args):
    """expected reverse URL for a pattern made of (escaped) literal characters and groups"""
    if pat.startswith("^"):
        pat = pat[1:]
    if pat.endswith("$") and not pat.endswith("\\$"):
        pat = pat[:-1]
    if not _SIMPLE.fullmatch(pat) or pat.endswith("\\$"):
        return None
    out, i, k = [], 0, 0
    while i < len(pat):
        c = pat[i]
        if c == "\\":
            out.append(pat[i + 1])
            i += 2
        elif c == "(":
            j = pat.index(")", i)
            if k >= len(args):
                return None
            out.append(urllib.parse.quote(args[k]))
            k += 1
            i = j + 1
        else:
            out.append(c)
            i += 1
    return "".join(out) if k == len(args) else None


def _find_named(rules, name):
    found = None
    for r in rules:
        if r.get("name") and r["name"] == name:
            found = r
    if found is not None:
        return found
    for r in rules:
        if "sub" in r:
            x = _find_named(r["sub"], name)
            if x is not None:
                return x
    return None


def _valid(s):
    return not any(0xD800 <= ord(c) <= 0xDFFF for c in s)


def _constructible(case):
    pats = [(r["k"], r["pat"]) for r in _all_rules(case["handlers"])] + [(r["k"], r["pat"]) for _, rs in case["hosts"] for r in _all_rules(rs)]
    for k, p in pats:
        if k in ("path", "pathre"):
            try:
                c = re.compile(p)
            except re.error:
                return False
            if len(c.groupindex) not in (0, c.groups):
                return False
    return True


def _all_rules(rules):
    for r in rules:
        yield r
        if "sub" in r:
            yield from _all_rules(r["sub"])


def py_check(case, o):
    op = case["op"]
    if not _constructible(case):
        return o == "ConstructionFailed"
    if o == "ConstructionFailed":
        return False
    if o == ["HarnessException"] or (isinstance(o, list) and o and o[0] == "HarnessException"):
        return False
    with warnings.catch_warnings():
        warnings.simplefilter("ignore")
        if op["k"] == "route":
            if not _valid(op["uri"]):
                return True
            return o == _oracle_route(case, op["host"], op["uri"], op.get("xreal", False))
        if isinstance(o, list) and o and o[0] == "Url":
            u = o[1]
            if _valid(u) and o[2] != _oracle_route(case, op["host"], u, False):
                return False
            r = _find_named(_app_tree(case), op["name"])
            if r is not None and r["k"] == "path":
                exp = _simple_url(r["pat"], [a.encode("latin-1") for a in op["args"]])
                if exp is not None and exp != u:
                    return False
        return True


# --------------------------------------------------------------------------
# generator
# --------------------------------------------------------------------------
BODIES = [
    # (regex body, sampler of raw strings in its language)
    ("[^/]+", "seg"), ("[0-9]+", "num"), ("[a-z-]+", "word"), (".*", "any"), (".*?", "any"), ("[^/]*", "seg0"),
    ("\\d+", "num"), ("[0-9]{4}", "year"), ("[0-9]{1,3}", "num3"), ("[a-z]+?", "alpha"), (".+", "any1"),
    ("[a-zA-Z0-9_]+", "ident"), ("[^/.]+", "nodot"), ("x?", "optx"), ("[%0-9A-F]+", "hex"), ("", "empty"),
    ("\\d\\d", "dd"), ("[a-z][a-z0-9]*", "ident2"), ("[^/]+?", "seg"), ("[a-c1-3-]{2,}", "ac"), ("[\\.\\-a]+", "dota"),
    (".{2}", "two"), ("[^%]+", "nopct"), ("[0-9]{2,}?", "num"),
]
LITS = ["a", "b", "ab", "api", "v1", "x\\.y", "100%", "a-b", "~u", "q\\?", "user", "1", "é", "p\\+", "\\%7E", "a%20b", "c\\-d", "e_f", "x=1", "a\\$b"]
HOSTPATS = [".*", "www\\.example\\.com", "example\\.com", "[a-z]+\\.example\\.com", ".*\\.example\\.com", "localhost", "EXAMPLE\\.com",
            "example\\.com$", "^www\\..*$", "[a-z0-9.-]+", "example.com", "ex\\$", "(www)\\.example\\.com", ".+\\.org"]
HOSTS = ["example.com", "www.example.com", "WWW.Example.COM", "a.example.com", "localhost", "other.org", "example.com.", "exampleXcom",
         "ex$", "ex$tra", "a.b.org", "x", "example.com:8080", "WWW.Example.COM:80", "example.com:", "[::1]:8080", "localhost:0",
         "www.example.com:443", "[::1]"]
NAMES = ["n0", "n1", "n2", "home", "n3"]


def _sample(kind, rng):
    al = "abcxyz"
    if kind in ("seg", "seg0"):
        n = rng.randrange(0 if kind == "seg0" else 1, 5)
        return "".join(rng.choice("ab1-._~%2F xé:") for _ in range(n))
    if kind == "num":
        return "".join(rng.choice("0123456789") for _ in range(rng.randrange(1, 5)))
    if kind == "num3":
        return "".join(rng.choice("0123456789") for _ in range(rng.randrange(1, 4)))
    if kind == "year":
        return "".join(rng.choice("0123456789") for _ in range(4))
    if kind == "word":
        return "".join(rng.choice("abz-") for _ in range(rng.randrange(1, 5)))
    if kind in ("any", "any1"):
        n = rng.randrange(0 if kind == "any" else 1, 6)
        return "".join(rng.choice("ab/1%2f .-") for _ in range(n))
    if kind == "alpha":
        return "".join(rng.choice(al) for _ in range(rng.randrange(1, 4)))
    if kind == "ident":
        return "".join(rng.choice("aZ0_b9") for _ in range(rng.randrange(1, 5)))
    if kind == "nodot":
        return "".join(rng.choice("ab1-_%") for _ in range(rng.randrange(1, 4)))
    if kind == "optx":
        return rng.choice(["", "x"])
    if kind == "hex":
        return "".join(rng.choice("%0123456789ABCDEF") for _ in range(rng.randrange(1, 6)))
    if kind == "empty":
        return ""
    if kind == "dd":
        return "".join(rng.choice("0123456789") for _ in range(2))
    if kind == "ident2":
        return rng.choice(al) + "".join(rng.choice("ab01") for _ in range(rng.randrange(0, 3)))
    if kind == "ac":
        return "".join(rng.choice("abc123-") for _ in range(rng.randrange(2, 5)))
    if kind == "dota":
        return "".join(rng.choice(".-a") for _ in range(rng.randrange(1, 4)))
    if kind == "two":
        return "".join(rng.choice("ab/%1") for _ in range(2))
    if kind == "nopct":
        return "".join(rng.choice("ab/1 .") for _ in range(rng.randrange(1, 4)))
    return "a"


def _unescape_lit(l):
    return re.sub(r"\\(.)", r"\1", l)


def gen_pattern(rng):
    """(pattern text, [(kind, value) segments] for building matching paths)"""
    segs = []
    parts = []
    n = rng.choice([1, 1, 2, 2, 3, 4])
    for i in range(n):
        sep = "/" if rng.random() < 0.9 else rng.choice(["", "-", "\\."])
        parts.append(sep)
        segs.append(("lit", _unescape_lit(sep)))
        r = rng.random()
        if r < 0.45:
            l = rng.choice(LITS)
            parts.append(l)
            segs.append(("lit", _unescape_lit(l)))
        elif r < 0.93:
            b, kind = rng.choice(BODIES[:8] if rng.random() < 0.6 else BODIES)
            parts.append(("(", b, ")"))
            segs.append(("grp", kind))
        else:   # a quantified top-level item
            t, kind = rng.choice([("[0-9]", "dig"), (".", "dot"), ("a*", "as"), ("[a-z]{2}", "two_l"), ("b+?", "bs"), ("a{1}", "one_a")])
            parts.append(t)
            segs.append(("top", kind))
    r = rng.random()
    if r < 0.15:
        parts.append("/?")
        segs.append(("top", "optslash"))
    elif r < 0.25:
        parts.append("/")
        segs.append(("lit", "/"))
    # groups: all positional (mostly), all named, or (rarely) mixed -> AssertionError at construction
    mode = rng.random()
    gi = 0
    flat = []
    for part in parts:
        if isinstance(part, tuple):
            gi += 1
            named = mode < 0.22 or (mode > 0.97 and gi % 2 == 1)
            nm = rng.choice(["id", "tag", "x1", "_k", "Name"]) + (str(gi) if rng.random() < 0.9 else "")
            flat.append("(" + ("?P<%s>" % nm if named else "") + part[1] + ")")
        else:
            flat.append(part)
    pat = "".join(flat)
    r = rng.random()
    if r < 0.06:
        pat = "^" + pat
    if r > 0.92:
        pat = pat + "$"
    elif r > 0.88:
        pat = pat + "\\$"
        segs.append(("lit", "$"))
    elif r > 0.86:
        pat = pat + rng.choice(["\\(x", "[(]", "\\)", "[)]"])
        segs.append(("lit", rng.choice(["(x", "(", ")"])))
    return pat, segs


def _sample_top(kind, rng):
    return {"dig": lambda: rng.choice("0123456789"), "dot": lambda: rng.choice("a/%x"), "as": lambda: "a" * rng.randrange(0, 3),
            "two_l": lambda: rng.choice(["ab", "zz"]), "bs": lambda: "b" * rng.randrange(1, 3),
            "optslash": lambda: rng.choice(["", "/"]), "one_a": lambda: "a"}[kind]()


def path_for(segs, rng):
    out = []
    for k, v in segs:
        if k == "lit":
            out.append(v)
        elif k == "grp":
            out.append(_sample(v, rng))
        else:
            out.append(_sample_top(v, rng))
    return "".join(out)


def mutate_path(p, rng):
    r = rng.random()
    if r < 0.5:
        return p
    if r < 0.58:
        return p + "\n"
    if r < 0.64:
        return p + rng.choice(["/", "x", "/extra", "\n\n", "?", "?a=b", "%0A", " "])
    if r < 0.70 and p:
        i = rng.randrange(len(p))
        return p[:i] + rng.choice(["%2F", "%41", "%zz", "%", "%e9", "%C3%A9", "/", "\n", "é", "€", "A", "0"]) + p[i + 1:]
    if r < 0.76 and p:
        i = rng.randrange(len(p))
        return p[:i] + p[i + 1:]
    if r < 0.82 and p:
        i = rng.randrange(len(p) + 1)
        return p[:i] + rng.choice(["a", "/", "1", "%25", "-", "."]) + p[i:]
    if r < 0.86:
        return p[: rng.randrange(len(p) + 1)]
    if r < 0.92:
        return "".join(rng.choice("/ab1%-.\n?") for _ in range(rng.randrange(0, 8)))
    return p + "?" + rng.choice(["", "x=1", "/a/b"])


class _Ids:
    def __init__(self):
        self.n = 0

    def next(self, rng):
        self.n += 1
        return self.n if rng.random() < 0.9 else rng.randrange(1, self.n + 1)


def gen_rules(rng, ids, depth, npat, pats):
    """rules list; records (pattern, segs, name, reversible leaf?) in pats"""
    out = []
    for _ in range(npat):
        r = rng.random()
        name = rng.choice(NAMES) if rng.random() < 0.45 else None
        if r < 0.78 or depth >= 2:
            pat, segs = rng.choice(pats)[:2] if (pats and rng.random() < 0.12) else gen_pattern(rng)
            rule = {"k": "path", "pat": pat, "name": name, "h": ids.next(rng)}
            if rng.random() < 0.08:    # the other PathMatches code path: a precompiled pattern
                rule["k"] = "pathre"
                if rng.random() < 0.5 and not pat.endswith("$"):
                    rule["pat"] = pat = pat + "$"
            pats.append((pat, segs, name, True))
            out.append(rule)
        elif r < 0.88:
            # nested router behind a path matcher: inner rules must match the same whole path
            pat, segs = gen_pattern(rng)
            sub = []
            for _ in range(rng.randrange(0, 3)):
                if rng.random() < 0.6:
                    sub.append({"k": "path", "pat": pat if rng.random() < 0.7 else gen_pattern(rng)[0], "name": rng.choice(NAMES) if rng.random() < 0.4 else None, "h": ids.next(rng)})
                else:
                    sub.append({"k": "any", "pat": "", "name": rng.choice(NAMES) if rng.random() < 0.3 else None, "h": ids.next(rng)})
            pats.append((pat, segs, name, False))
            out.append({"k": "path", "pat": pat, "name": name, "sub": sub})
        elif r < 0.95:
            sub = gen_rules(rng, ids, depth + 1, rng.randrange(0, 3), pats)
            out.append({"k": "host", "pat": rng.choice(HOSTPATS), "name": name, "sub": sub})
        else:
            if rng.random() < 0.5:
                out.append({"k": "any", "pat": "", "name": name, "sub": gen_rules(rng, ids, depth + 1, rng.randrange(0, 3), pats)})
            else:
                out.append({"k": "host", "pat": rng.choice(HOSTPATS), "name": name, "h": ids.next(rng)})
    return out


def gen_config(rng):
    ids = _Ids()
    pats = []
    handlers = gen_rules(rng, ids, 0, rng.choice([1, 2, 3, 4, 5]), pats)
    hosts = []
    for _ in range(rng.choice([0, 0, 0, 1, 1, 2])):
        hosts.append([rng.choice(HOSTPATS), gen_rules(rng, ids, 1, rng.randrange(0, 3), pats)])
    dh = rng.choice([None, None, None, "example.com", "www.example.com", "Example.com"])
    cfg = {"handlers": handlers, "hosts": hosts, "default_host": dh, "dflt": rng.random() < 0.25}
    return cfg, pats


def _arg_for(kind, rng):
    """raw argument bytes (latin-1 str); mostly such that quote(arg) is in the group's language"""
    r = rng.random()
    if r < 0.12:
        return rng.choice(["a/b", "", "x y", "100%", "\xe9", "\xff\x00", "a?b", "A", "9", "a\nb", "%2F", "~", "../x"])
    s = _sample(kind, rng)
    return s.encode("utf-8").decode("latin-1")


def gen_ops(rng, cfg, pats, n):
    ops = []
    for _ in range(n):
        host = rng.choice(HOSTS if rng.random() < 0.8 else HOSTS[:2])
        if rng.random() < 0.72 or not pats:
            if pats and rng.random() < 0.9:
                pat, segs = rng.choice(pats)[:2]
                uri = mutate_path(path_for(segs, rng), rng)
            else:
                uri = "".join(rng.choice("/ab1%-.\n?x") for _ in range(rng.randrange(0, 9)))
            ops.append({"k": "route", "host": host, "uri": uri, "xreal": rng.random() < 0.15})
        else:
            named = [p for p in pats if p[2]]
            if named and rng.random() < 0.9:
                pat, segs, name, _ = rng.choice(named)
                kinds = [v for k, v in segs if k == "grp"]
                args = [_arg_for(k, rng) for k in kinds]
                r = rng.random()
                if r < 0.08 and args:
                    args = args[:-1]
                elif r < 0.14:
                    args = args + ["x"]
            else:
                name = rng.choice(NAMES + ["missing", ""])
                args = [_arg_for("seg", rng) for _ in range(rng.randrange(0, 3))]
            ops.append({"k": "reverse", "name": name, "args": args, "host": host})
    return ops


# ---- applications built by SEQUENCES of add_handlers calls with repeated / overlapping host patterns ----
SEQ_HOSTPATS = ["www\\.example\\.com", "www\\..*", ".*\\.example\\.com", ".*", "www.example.com", "[a-z.]+", "example\\.com", ".*$",
                "www\\.example\\.com$", "[a-z]+\\.example\\.com"]
SEQ_PATHS = ["/a", "/b", "/(.*)", "/a/([0-9]+)", "/([a-z]+)", "/c/([^/]+)", "/c/(.*)", "/d", "/b/?"]
SEQ_HOSTS = ["www.example.com", "WWW.example.com:8080", "example.com", "a.example.com", "other.org", "www.other.org", "www.example.com:80",
             "example.com:8080", "wwwXexampleYcom"]
SEQ_URIS = ["/a", "/b", "/a/1", "/zz", "/", "/c/x%20y", "/d", "/b/", "/c/x/y", "/a?x=1"]


def gen_hostseq(rng):
    ids = _Ids()
    ncalls = rng.choice([3, 3, 4, 5])
    pats = [rng.choice(SEQ_HOSTPATS) for _ in range(ncalls)]
    if rng.random() < 0.75:       # force "P ... Q ... P": an earlier pattern is used again later
        i = rng.randrange(0, ncalls - 2)
        pats[rng.randrange(i + 2, ncalls)] = pats[i]
    def rules(n):
        out = []
        for _ in range(n):
            out.append({"k": "path", "pat": rng.choice(SEQ_PATHS), "name": rng.choice(NAMES) if rng.random() < 0.2 else None, "h": ids.next(rng)})
        return out
    hosts = [[p, rules(rng.choice([1, 1, 2, 3]))] for p in pats]
    cfg = {"handlers": rules(rng.choice([0, 1, 2])), "hosts": hosts,
           "default_host": rng.choice([None, None, "www.example.com", "example.com"]), "dflt": rng.random() < 0.2}
    return cfg


def gen_hostseq_ops(rng, n):
    return [{"k": "route", "host": rng.choice(SEQ_HOSTS), "uri": rng.choice(SEQ_URIS), "xreal": rng.random() < 0.1} for _ in range(n)]


def _case(cfg, op):
    c = dict(cfg)
    c["op"] = op
    return c


def _leaf(pat, h, name=None):
    return {"k": "path", "pat": pat, "name": name, "h": h}


def corpus_cases():
    base = {"hosts": [], "default_host": None, "dflt": False}
    out = []
    # the fixed defect of DESIGN.md section 8: literal % in a reversible pattern
    c1 = dict(base, handlers=[_leaf("/100%/([a-z]+)", 1, "p"), _leaf("/c/([^/]+)", 2, "c"), _leaf("/x%sy/(.*)", 3, "s")])
    out.append(_case(c1, {"k": "reverse", "name": "p", "args": ["abc"], "host": "example.com"}))
    out.append(_case(c1, {"k": "reverse", "name": "c", "args": ["x/y z"], "host": "example.com"}))
    out.append(_case(c1, {"k": "reverse", "name": "c", "args": ["\xff%"], "host": "example.com"}))
    out.append(_case(c1, {"k": "reverse", "name": "s", "args": ["q"], "host": "example.com"}))
    out.append(_case(c1, {"k": "reverse", "name": "c", "args": [], "host": "example.com"}))
    out.append(_case(c1, {"k": "reverse", "name": "zz", "args": [], "host": "example.com"}))
    out.append(_case(c1, {"k": "route", "host": "example.com", "uri": "/100%/abc", "xreal": False}))
    out.append(_case(c1, {"k": "route", "host": "example.com", "uri": "/c/x%2Fy", "xreal": False}))
    out.append(_case(c1, {"k": "route", "host": "example.com", "uri": "/c/%zz%41?x=1", "xreal": False}))
    out.append(_case(c1, {"k": "route", "host": "example.com", "uri": "/c/é", "xreal": False}))
    out.append(_case(c1, {"k": "route", "host": "example.com", "uri": "/nothing", "xreal": False}))
    # host rules, default host, nested routers, duplicate names
    c2 = {"handlers": [_leaf("/a", 1, "n0"), {"k": "path", "pat": "/b/.*", "name": None, "sub": [_leaf("/b/(.*)", 2, "n0"), {"k": "any", "pat": "", "name": None, "h": 3}]},
                       _leaf("/a", 4, "n0")],
          "hosts": [["www\\.example\\.com", [_leaf("/a", 5), _leaf("/h/([0-9]+)", 6, "h")]], ["[a-z]+\\.org", [_leaf("/a", 7)]]],
          "default_host": "www.example.com", "dflt": True}
    for host, uri, x in [("example.com", "/a", False), ("WWW.example.com", "/a", False), ("a.org", "/a", False), ("other.net", "/h/12", False),
                         ("other.net", "/h/12", True), ("example.com", "/b/x/y", False), ("example.com", "/zzz", False)]:
        out.append(_case(c2, {"k": "route", "host": host, "uri": uri, "xreal": x}))
    out.append(_case(c2, {"k": "reverse", "name": "n0", "args": [], "host": "example.com"}))
    out.append(_case(c2, {"k": "reverse", "name": "h", "args": ["7"], "host": "www.example.com"}))
    out.append(_case(c2, {"k": "reverse", "name": "h", "args": ["7"], "host": "example.com"}))
    # named non-path rule: Matcher.reverse returns None -> KeyError
    c3 = dict(base, handlers=[{"k": "host", "pat": ".*", "name": "hn", "sub": [_leaf("/q", 1, "q")]}, {"k": "any", "pat": "", "name": "an", "h": 2}])
    out.append(_case(c3, {"k": "reverse", "name": "hn", "args": [], "host": "x"}))
    out.append(_case(c3, {"k": "reverse", "name": "q", "args": [], "host": "x"}))
    # not reversible / odd templates
    c4 = dict(base, handlers=[_leaf("/a\\(b/(x)", 1, "n0"), _leaf("/a\\)b/(x)", 2, "n1"), _leaf("/d\\d/(x)", 3, "n2"), _leaf("/e[)]/(y)", 4, "n3")])
    for nm in ("n0", "n1", "n2", "n3"):
        out.append(_case(c4, {"k": "reverse", "name": nm, "args": ["x"], "host": "x"}))
    # former defects (fixed by 1ebf566 / 7c6fefa / bb257ac): escaped dollar at the end of a pattern left it
    # unanchored; `$` matched before a trailing LF; the end()-check variant rejected lazy groups; reverse cut the "\\$"
    c5 = dict(base, handlers=[_leaf("/a\\$", 1, "d"), _leaf("/b", 2), _leaf("/l/([^/]*?)", 3), _leaf("/m/(.*?)\\$", 4, "m"),
                              _leaf("/a/(x+)\\$", 5, "e")])
    for uri in ["/a$", "/b", "/a$xyz", "/a$/zz", "/b\n", "/b\n\n", "/l/b\n", "/l/b", "/m/x$y$", "/m/$", "/a/xx$", "/a/xx$$"]:
        out.append(_case(c5, {"k": "route", "host": "x", "uri": uri, "xreal": False}))
    out.append(_case(c5, {"k": "reverse", "name": "d", "args": [], "host": "x"}))
    out.append(_case(c5, {"k": "reverse", "name": "m", "args": ["x$y"], "host": "x"}))
    out.append(_case(c5, {"k": "reverse", "name": "e", "args": ["xx"], "host": "x"}))
    # precompiled patterns keep Pattern.match semantics (prefix match; `$` also before a final LF)
    c7 = dict(base, handlers=[{"k": "pathre", "pat": "/p/([0-9]+)", "name": "pre", "h": 1}, {"k": "pathre", "pat": "/q/([a-z]*?)$", "name": "q", "h": 2},
                              _leaf("/p/([0-9]+)x", 3), {"k": "pathre", "pat": "^/r\\$", "name": "r", "h": 4}])
    for uri in ["/p/12", "/p/12x", "/p/12/zz", "/p/", "/q/ab", "/q/ab\n", "/q/ab\n\n", "/q/abX", "/r$", "/r$$"]:
        out.append(_case(c7, {"k": "route", "host": "x:80", "uri": uri, "xreal": False}))
    for nm, a in [("pre", ["7"]), ("q", ["ab"]), ("r", [])]:
        out.append(_case(c7, {"k": "reverse", "name": nm, "args": a, "host": "x"}))
    # add_handlers call order: P, overlapping Q, P again (seeded change C31_3 merged the third call into the first)
    c8 = {"handlers": [_leaf("/b", 9)], "hosts": [["www.example.com", [_leaf("/a", 1)]], ["www\\..*", [_leaf("/b", 2), _leaf("/c/([^/]+)", 3)]],
                                                  ["www.example.com", [_leaf("/b", 4), _leaf("/c/(.*)", 5), _leaf("/d", 6)]]],
          "default_host": None, "dflt": False}
    for host, uri in [("www.example.com", "/a"), ("www.example.com", "/b"), ("www.example.com:8080", "/b"), ("www.example.com", "/c/x%20y"),
                      ("www.example.com", "/d"), ("www.other.org", "/b"), ("example.com", "/b")]:
        out.append(_case(c8, {"k": "route", "host": host, "uri": uri, "xreal": False}))
    # named groups -> path_kwargs (incl. the empty capture of seeded change C31_2); mixed groups are refused
    c9 = dict(base, handlers=[_leaf("/u/(?P<id>[0-9]+)/(?P<tag>[a-z]*)", 1, "u"), _leaf("/n/(?P<tag>.*)", 2, "n"), _leaf("/p/([a-z]*)/(.*)", 3, "p"),
                              {"k": "pathre", "pat": "/q/(?P<q>[^/]*)", "name": "q", "h": 4}])
    for uri in ["/u/7/ab", "/u/7/", "/n/", "/n/a%20b", "/p//", "/p/a/b", "/q/", "/q/x/rest", "/u/x/"]:
        out.append(_case(c9, {"k": "route", "host": "x", "uri": uri, "xreal": False}))
    for nm, a in [("u", ["7", ""]), ("u", ["7", "ab"]), ("n", [""]), ("n", ["a b"]), ("p", ["", ""]), ("q", [""]), ("u", ["7"])]:
        out.append(_case(c9, {"k": "reverse", "name": nm, "args": a, "host": "x"}))
    c10 = dict(base, handlers=[_leaf("/m/(?P<a>x)/(y)", 1), _leaf("/ok", 2)])
    out.append(_case(c10, {"k": "route", "host": "x", "uri": "/ok", "xreal": False}))
    c11 = dict(base, handlers=[_leaf("/m/(?P<a>x)/(?P<a>y)", 1)])
    out.append(_case(c11, {"k": "route", "host": "x", "uri": "/m/x/y", "xreal": False}))
    c6 = {"handlers": [_leaf("/h", 1)], "hosts": [["ex\\$", [_leaf("/h", 2)]], ["example\\.com", [_leaf("/h", 3)]]], "default_host": None, "dflt": False}
    for host in ["ex$", "ex$tra", "example.com", "example.com.evil", "example.com:8080", "EXAMPLE.com:1", "example.com:", "ex$:5"]:
        out.append(_case(c6, {"k": "route", "host": host, "uri": "/h", "xreal": False}))
    return out


SMALL_TABLES = [
    [_leaf("/(a*)", 1), _leaf("/([^/]+)/(.*)", 2), _leaf("/.*", 3)],
    [_leaf("/a/?", 1), _leaf("/(a+?)(a*)", 2), _leaf("(/[%1]{2,3})", 3)],
    [_leaf("/%(1?)", 1), _leaf("/(.*?)/(.*)", 2), _leaf("(.?)(.?)(.?)", 3)],
    [{"k": "path", "pat": "/a.*", "name": None, "sub": [_leaf("/a/([^/]*)", 1), _leaf("/a(.*)a", 2)]}, _leaf("/([a1]{2})", 3), _leaf("", 4)],
    [{"k": "pathre", "pat": "/a", "name": None, "h": 1}, {"k": "pathre", "pat": "/(1*?)$", "name": None, "h": 2}, _leaf("/(%*)", 3)],
]


def gen_cases(rng, tier):
    out = []
    nconf = 170 if tier == "quick" else 1000
    per = 8
    for _ in range(nconf):
        cfg, pats = gen_config(rng)
        for op in gen_ops(rng, cfg, pats, per):
            out.append(_case(cfg, op))
    for _ in range(60 if tier == "quick" else 500):
        cfg = gen_hostseq(rng)
        for op in gen_hostseq_ops(rng, 6):
            out.append(_case(cfg, op))
    if tier == "thorough":   # exhaustive: every sequence of 3 add_handlers calls over 3 overlapping host patterns x 2 rule sets
        hp = ["www\\.example\\.com", "www\\..*", ".*"]
        rs = [["/a"], ["/b", "/(.*)"]]
        for trip in itertools.product(range(3), repeat=3):
            for rr in itertools.product(range(2), repeat=3):
                n = [0]
                def mk(pl):
                    o = []
                    for q in pl:
                        n[0] += 1
                        o.append({"k": "path", "pat": q, "name": None, "h": n[0]})
                    return o
                cfg = {"handlers": mk(["/b"]), "hosts": [[hp[trip[i]], mk(rs[rr[i]])] for i in range(3)], "default_host": None, "dflt": False}
                for host in ["www.example.com:8080", "www.other.org", "example.com"]:
                    for uri in ["/a", "/b", "/c"]:
                        out.append(_case(cfg, {"k": "route", "host": host, "uri": uri, "xreal": False}))
    # small-scope exhaustive: every path over a 5-letter alphabet up to a length bound
    base = {"hosts": [], "default_host": None, "dflt": False}
    alpha = "/a1%\n"
    L = 3 if tier == "quick" else 5
    for t in SMALL_TABLES:
        cfg = dict(base, handlers=t)
        for n in range(L + 1):
            for tup in itertools.product(alpha, repeat=n):
                out.append(_case(cfg, {"k": "route", "host": "x", "uri": "".join(tup), "xreal": False}))
    return out


# --------------------------------------------------------------------------
# evidence helpers
# --------------------------------------------------------------------------
def nontrivial(case, o):
    op = case["op"]
    if isinstance(o, list):
        return (repr(case["handlers"]), repr(case["hosts"]), repr(op))
    return None


def classify(case, o):
    op = case["op"]
    yield "op=" + op["k"]
    if isinstance(o, list):
        yield "out=" + str(o[0])
        if o[0] == "Url":
            yield "routeback=" + (str(o[2][0]) if isinstance(o[2], list) else str(o[2]))
    else:
        yield "out=" + str(o)
    yield "hosts=%d" % len(case["hosts"])
    yield "default_host=" + ("yes" if case.get("default_host") else "no")
    if op["k"] == "route":
        u = op["uri"]
        yield "uri:" + ("pct" if "%" in u else "plain")
        if u.endswith("\n"):
            yield "uri:trailing-LF"


def _all_patterns(rules):
    for r in rules:
        yield r["pat"]
        if "sub" in r:
            yield from _all_patterns(r["sub"])


def _esc_dollar_end(p):
    if not p.endswith("$"):
        return False
    n = 0
    i = len(p) - 2
    while i >= 0 and p[i] == "\\":
        n += 1
        i -= 1
    return n % 2 == 1


def signature(case, o):
    op = case["op"]
    path = None
    if op["k"] == "route":
        path = op["uri"].partition("?")[0]
    elif isinstance(o, list) and o and o[0] == "Url":
        path = o[1].partition("?")[0]
    if path is not None and path.endswith("\n"):
        return "dollar-before-trailing-newline"
    pats = list(_all_patterns(case["handlers"])) + [hp for hp, _ in case["hosts"]] + [p for _, rs in case["hosts"] for p in _all_patterns(rs)]
    if any(_esc_dollar_end(p) for p in pats):
        return "unanchored-escaped-dollar"
    return "other"


def _shrink_rules(rules):
    for i in range(len(rules)):
        yield rules[:i] + rules[i + 1:]
    for i, r in enumerate(rules):
        if "sub" in r:
            for s in _shrink_rules(r["sub"]):
                yield rules[:i] + [dict(r, sub=s)] + rules[i + 1:]
        if r.get("name"):
            yield rules[:i] + [dict(r, name=None)] + rules[i + 1:]


def shrink(case):
    for hs in _shrink_rules(case["handlers"]):
        yield dict(case, handlers=hs)
    for i in range(len(case["hosts"])):
        yield dict(case, hosts=case["hosts"][:i] + case["hosts"][i + 1:])
    for i, (hp, rs) in enumerate(case["hosts"]):
        for s in _shrink_rules(rs):
            yield dict(case, hosts=case["hosts"][:i] + [[hp, s]] + case["hosts"][i + 1:])
    if case.get("default_host"):
        yield dict(case, default_host=None)
    if case.get("dflt"):
        yield dict(case, dflt=False)
    op = case["op"]
    if op["k"] == "route":
        u = op["uri"]
        for i in range(len(u)):
            yield dict(case, op=dict(op, uri=u[:i] + u[i + 1:]))
        if op.get("xreal"):
            yield dict(case, op=dict(op, xreal=False))
    else:
        a = op["args"]
        for i in range(len(a)):
            if len(a[i]) > 1:
                yield dict(case, op=dict(op, args=a[:i] + [a[i][:-1]] + a[i + 1:]))


TRUSTED_BASE = [
    "Python's re engine on the modelled pattern fragment (literals, escapes of non-alphanumerics, ., [...] sets with ranges, \\d, "
    "quantifiers * + ? {m} {m,n} and their lazy forms on one-character atoms, unnested unnamed groups, ^ at the start, $ at the end): "
    "the Gallina backtracking matcher is tied to it only by the correspondence check",
    "urllib.parse.quote / unquote_to_bytes as modelled in Lib/C21_Pct.v; str.encode('utf-8') as in Lib/C21_Utf8.v",
    "HTTPServerRequest derives host_name = split_host_and_port(Host.lower())[0] (modelled for ASCII hosts, ports shorter than int()'s digit limit) and path = uri.partition('?')[0]",
    "Python % formatting restricted to %% and %s on str arguments",
]
ASSUMPTIONS = [
    "patterns are inside the modelled fragment (rx_parse succeeds); named groups, alternation, nested or quantified groups, \\w, look-arounds are not modelled",
    "handler targets are RequestHandler subclasses or nested rule lists",
    "request paths contain no lone surrogates (otherwise UnicodeEncodeError escapes, modelled as RtError)",
    "reverse_url arguments are byte strings (str / int arguments are converted to the same bytes by utf8()/str(); the harness passes all three kinds)",
    "Host header values are ASCII; a port, if any, is shorter than int()'s 4300-digit limit",
]
RULE = ("random Application configurations (1-5 top rules, nested routers behind path/host/any matchers, 0-2 add_handlers host groups, "
        "optional default_host/default handler, duplicate names; plus applications built by sequences of 3-5 add_handlers calls with repeated and "
        "overlapping host patterns, Host values with ports; thorough: every sequence of 3 calls over 3 overlapping patterns) x 8 operations each: paths sampled from a rule's own pattern language then mutated "
        "(trailing LF, extra/missing characters, percent escapes valid and invalid, non-ASCII, query), or reverse_url with arguments sampled from the "
        "group languages, wrong counts and unrepresentable arguments, followed by routing the returned URL; plus every path over the alphabet "
        "{/,a,1,%,LF} up to length 3 (quick) / 5 (thorough) on 5 small ambiguous rule tables (one with precompiled patterns); distinct by (rules, op); non-trivial = a handler or URL result")
EXHAUSTIVE = {"quick": False, "thorough": False}
LEVEL_TEXT = ("Machine-checked (Coq) proofs over an executable model of RuleRouter.find_handler, HostMatches / DefaultHostMatches / PathMatches "
              "(match, reverse, _find_groups), ReversibleRuleRouter.reverse_url and the Application routers, with a Gallina priority-ordered backtracking "
              "matcher for the modelled regex fragment: the matcher accepts exactly the whole-string language of a pattern; find_handler dispatches to the "
              "first leaf (depth first through nested routers and host groups) whose matchers all match the whole host/path, with percent-decoded groups, "
              "else default/404 (both directions); reverse followed by match returns the arguments for representable arguments and unambiguous parses "
              "(semantic and syntactic criterion), proved from the pattern TEXT for plainly written patterns including literal % and a final escaped $; "
              "reverse_url routes back inside the stated scope for every compiled configuration; check_case accepts the model on every case; the Host port is "
              "irrelevant to routing; precompiled patterns keep Pattern.match semantics. The model is tied to the code by differential correspondence on generated "
              "Application configurations.")
LEVEL_NOTE = ("Trusted: Coq kernel/vm_compute; Python's re engine on the modelled fragment (tied by correspondence only); the percent-coding and UTF-8 "
              "models of Lib/C21_*; Python % formatting on %%/%s; correspondence harness.")
TECHNIQUE = "Coq proof (CPS backtracking matcher sound/complete w.r.t. a declarative semantics, unique-parse argument, induction over nested rule trees, lexer/builder/_find_groups simulation on pattern text) + differential correspondence via vm_compute"
