"""C05 — every started request ends with exactly one finish or close notification.

The real HTTPServer / HTTP1ServerConnection / HTTP1Connection are driven over a FakeIOStream under the
virtual clock with a scripted, recording HTTPMessageDelegate; the event schedule (segments of the request
stream, peer EOF, handler continuation, body timeout, close_all_connections) is the case input.  The same
schedule is run through the Gallina machine of coq/C05/Model.v and the two observables must be equal."""
import asyncio
import json
import logging
import re
import types

from harness import gallina as G

ID = "C05"
COQ_DIRS = ["C05"]
PROPERTY_FILE = "C05/Property.v"
RUN_IMPORTS = "From TV Require Import C05.Model C05.Spec C05.Run."
RUN_FN = "run_case"
CHECK_FN = "check_case"
INPUT_TYPE = "input"

BT = 10.0          # body_timeout used when cfg.bt; a "T" event lets exactly this much virtual time pass
HMODES = ["sync", "async", "asyncresp", "detach", "raise", "respond"]
DMODES = ["sync", "async", "raise", "respond"]
FMODES = ["sync", "async", "raise"]
H_COQ = dict(sync="HSync", **{"async": "HAsync"}, asyncresp="HAsyncResp", detach="HDetach", **{"raise": "HRaise"}, respond="HRespond")
D_COQ = dict(sync="DSync", **{"async": "DAsync", "raise": "DRaise"}, respond="DRespond")
F_COQ = dict(sync="FSync", **{"async": "FAsync", "raise": "FRaise"})


# --------------------------------------------------------------------------- implementation runner
class _Boom(Exception):
    pass


def _make_app(cfg, log):
    from tornado import httputil
    from tornado.concurrent import Future

    class Rec(httputil.HTTPMessageDelegate):
        def __init__(self, app, conn, idx):
            self.app, self.conn, self.idx = app, conn, idx
            self.responded = False

        def respond(self):
            if self.responded:
                return
            self.responded = True
            log.append([G.Tag("R"), self.idx])
            self.conn.write_headers(httputil.ResponseStartLine("HTTP/1.1", 200, "OK"),
                                    httputil.HTTPHeaders({"Content-Length": "2"}), b"ok")
            self.conn.finish()

        def _wait(self, before=None):
            f = Future()

            def go():
                if f.done():          # cancelled together with the body reader (body timeout)
                    return
                if before is not None:
                    before()
                f.set_result(None)
            self.app.pending = go
            return f

        def headers_received(self, start_line, headers):
            log.append([G.Tag("H"), self.idx])
            if cfg.get("cb", True):
                self.conn.set_close_callback(lambda: log.append([G.Tag("CB"), self.idx]))
            h = cfg["h"]
            if h == "sync":
                return None
            if h == "async":
                return self._wait()
            if h == "asyncresp":
                return self._wait(self.respond)
            if h == "detach":
                self.conn.detach()
                return None
            if h == "raise":
                raise _Boom()
            if h == "respond":
                self.respond()
                return None
            raise AssertionError(h)

        def data_received(self, chunk):
            log.append([G.Tag("D"), self.idx, bytes(chunk)])
            d = cfg["d"]
            if d == "sync":
                return None
            if d == "async":
                return self._wait()
            if d == "raise":
                raise _Boom()
            if d == "respond":
                self.respond()
                return None
            raise AssertionError(d)

        def finish(self):
            log.append([G.Tag("F"), self.idx])
            f = cfg["f"]
            if f == "sync":
                self.respond()
            elif f == "async":
                if not self.responded:
                    self.app.pending = self.respond
            elif f == "raise":
                raise _Boom()
            else:
                raise AssertionError(f)

        def on_connection_close(self):
            log.append([G.Tag("C"), self.idx])

    class App(httputil.HTTPServerConnectionDelegate):
        def __init__(self):
            self.n = 0
            self.pending = None

        def start_request(self, server_conn, request_conn):
            d = Rec(self, request_conn, self.n)
            self.n += 1
            return d

        def act(self):
            p, self.pending = self.pending, None
            if p is not None:
                p()

    return App()


def _make_callable_server(cfg, log, HTTPServer, kw):
    """HTTPServer(plain callable): the server's own _CallableAdapter is the message delegate (it never registers a
    close callback); a recording proxy sits between the connection and the adapter."""
    from tornado import httputil
    state = {"pending": None, "n": 0}

    def respond(request, idx):
        log.append([G.Tag("R"), idx])
        request.connection.write_headers(httputil.ResponseStartLine("HTTP/1.1", 200, "OK"),
                                         httputil.HTTPHeaders({"Content-Length": "2"}), b"ok")
        request.connection.finish()

    def app(request):
        idx = state["n"] - 1
        if cfg["f"] == "sync":
            respond(request, idx)
        elif cfg["f"] == "async":
            state["pending"] = lambda: respond(request, idx)
        else:
            raise _Boom()

    class Proxy(httputil.HTTPMessageDelegate):
        def __init__(self, inner, idx):
            self.inner, self.idx = inner, idx

        def headers_received(self, start_line, headers):
            log.append([G.Tag("H"), self.idx])
            return self.inner.headers_received(start_line, headers)

        def data_received(self, chunk):
            log.append([G.Tag("D"), self.idx, bytes(chunk)])
            return self.inner.data_received(chunk)

        def finish(self):
            log.append([G.Tag("F"), self.idx])
            return self.inner.finish()

        def on_connection_close(self):
            log.append([G.Tag("C"), self.idx])
            return self.inner.on_connection_close()

    class Srv(HTTPServer):
        def start_request(self, server_conn, request_conn):
            d = HTTPServer.start_request(self, server_conn, request_conn)
            state["n"] += 1
            return Proxy(d, state["n"] - 1)

        def on_close(self, server_conn):
            log.append([G.Tag("X")])
            HTTPServer.on_close(self, server_conn)

    def act():
        p, state["pending"] = state["pending"], None
        if p is not None:
            p()

    return Srv(app, **kw), act


def header_facts(data, maxbody):
    """What _read_message learns from one header block, computed with Tornado's own functions in the order
    _read_message uses them (_parse_headers, parse_request_start_line, _can_keep_alive, Expect, _read_body)."""
    from tornado import httputil
    from tornado.http1connection import HTTP1Connection, HTTP1ConnectionParameters
    stub = types.SimpleNamespace(params=HTTP1ConnectionParameters(), is_client=False, _max_body_size=maxbody,
                                 _read_chunked_body=lambda d: "chunked", _read_fixed_body=lambda n, d: ("fixed", n),
                                 _read_body_until_close=lambda d: "untilclose")
    try:
        sl, headers = HTTP1Connection._parse_headers(stub, data)
        rsl = httputil.parse_request_start_line(sl)
        ka = HTTP1Connection._can_keep_alive(stub, rsl, headers)
    except httputil.HTTPInputError:
        return ["bad"]
    exp = headers.get("Expect") == "100-continue"
    try:
        b = HTTP1Connection._read_body(stub, 0, headers, None)
    except httputil.HTTPInputError:
        fr = ["err"]
    else:
        if b is None:
            fr = ["none"]
        elif b == "chunked":
            fr = ["chunked"]
        else:
            fr = ["fixed", int(b[1])]
    return ["ok", bool(ka), bool(exp), fr]


_facts_cache = {}


def _key(case):
    return json.dumps(case, sort_keys=True)


def _run(case):
    from tornado.httpserver import HTTPServer
    from tornado.http1connection import HTTP1Connection
    from harness.fake_iostream import FakeIOStream, EOF
    from harness.vclock import run_virtual, settle
    cfg = case["cfg"]
    blocks = []
    orig = HTTP1Connection._parse_headers

    def rec_parse(self, data):
        blocks.append(bytes(data))
        return orig(self, data)

    async def scenario(loop):
        log = []
        kw = dict(chunk_size=cfg["chunk"], max_header_size=cfg["maxh"], max_body_size=cfg["maxbody"])
        if cfg["bt"]:
            kw["body_timeout"] = BT
        if cfg.get("callable"):
            srv, act = _make_callable_server(cfg, log, HTTPServer, kw)
        else:
            app = _make_app(cfg, log)
            act = app.act

            class Srv(HTTPServer):
                def on_close(self, server_conn):
                    log.append([G.Tag("X")])
                    HTTPServer.on_close(self, server_conn)

            srv = Srv(app, **kw)
        s = FakeIOStream(read_chunk_size=cfg["chunk"])
        srv.handle_stream(s, ("1.2.3.4", 5))
        await settle(6)
        sc = None
        for ev in case["events"]:
            k = ev[0]
            if k == "F":
                s.feed(ev[1].encode("latin-1"))
            elif k == "E":
                s.feed(EOF)
            elif k == "A":
                act()
            elif k == "T":
                await asyncio.sleep(BT)
            elif k == "S":
                if sc is None:
                    sc = asyncio.ensure_future(srv.close_all_connections())
            else:
                raise AssertionError(k)
            await settle(12)
        codes = [int(m) for m in re.findall(rb"HTTP/1\.1 (\d+)", bytes(s.sent))]
        return [list(log), codes, bool(s.closed()), len(srv._connections) == 0,
                (bool(sc.done()) if sc is not None else None)]

    loggers = [logging.getLogger(n) for n in ("tornado.access", "tornado.application", "tornado.general", "asyncio")]
    olds = [(lg.level, lg.propagate) for lg in loggers]
    HTTP1Connection._parse_headers = rec_parse
    for lg in loggers:
        lg.setLevel(logging.CRITICAL + 10)
    try:
        obs = run_virtual(scenario)
    finally:
        HTTP1Connection._parse_headers = orig
        for lg, (lv, pr) in zip(loggers, olds):
            lg.setLevel(lv)
    facts = [[b.decode("latin-1"), header_facts(b, cfg["maxbody"])] for b in dict.fromkeys(blocks)]
    return obs, facts


def run_impl(case):
    obs, facts = _run(case)
    _facts_cache[_key(case)] = facts
    if len(_facts_cache) > 20000:
        _facts_cache.clear()
    return obs


def _facts(case):
    k = _key(case)
    if k not in _facts_cache:
        _facts_cache[k] = _run(case)[1]
    return _facts_cache[k]


# --------------------------------------------------------------------------- Gallina rendering
def _gfr(fr):
    if fr[0] == "err":
        return "BErr"
    if fr[0] == "none":
        return "BNone"
    if fr[0] == "chunked":
        return "BChunked"
    return "(BFixed %s)" % G.gn(fr[1])


def _gfacts(f):
    if f[0] == "bad":
        return "FBad"
    return "(FOk %s %s %s)" % (G.gbool(f[1]), G.gbool(f[2]), _gfr(f[3]))


def _gevent(ev):
    k = ev[0]
    if k == "F":
        return "EFeed %s" % G.gbytes(ev[1].encode("latin-1"))
    return {"E": "EEof", "A": "EAct", "T": "ETimeout", "S": "EServerClose"}[k]


def coq_input(case):
    cfg = case["cfg"]
    c = "(mkCfg %s %s %s %s %s %s %s %s)" % (H_COQ[cfg["h"]], D_COQ[cfg["d"]], F_COQ[cfg["f"]], G.gbool(cfg["bt"]),
                                             G.gn(cfg["chunk"]), G.gn(cfg["maxh"]), G.gn(cfg["maxbody"]),
                                             G.gbool(cfg.get("cb", True)))
    tbl = G.glist(["(%s, %s)" % (G.gbytes(k.encode("latin-1")), _gfacts(f)) for k, f in _facts(case)], "(list N * facts)")
    bodies = G.glist([G.goption(b, lambda x: G.gbytes(x.encode("latin-1")), "(list N)") for b in case.get("bodies", [])],
                     "(option (list N))")
    evs = G.glist([_gevent(e) for e in case["events"]], "event")
    return "(%s, %s, %s, %s)" % (c, tbl, bodies, evs)


# --------------------------------------------------------------------------- independent Python oracle
def _violation(case, o):
    """None if the property holds on the observable, else a short reason"""
    if not (isinstance(o, list) and len(o) == 5 and isinstance(o[0], list)):
        return "malformed-observable"
    trace, _sent, _closed, ex, sc = o
    cfg = case["cfg"]
    state = ("idle", -1)
    data = {}
    fin = set()
    last = None
    for e in trace:
        k = str(e[0])
        if k in ("CB", "R", "X"):
            continue
        i = e[1]
        last = k
        if k == "H":
            if not ((state[0] == "idle" and i == 0) or (state[0] == "done" and i == state[1] + 1)):
                return "headers-out-of-order"
            state = ("open", i)
            data[i] = b""
        elif k == "D":
            if state == ("done", i):
                return "data-after-terminal"
            if state != ("open", i):
                return "data-without-headers"
            data[i] += e[2]
        elif k in ("F", "C"):
            if state == ("done", i):
                return "second-terminal"
            if state != ("open", i):
                return "terminal-without-headers"
            state = ("done", i)
            if k == "F":
                fin.add(i)
        else:
            return "unknown-event"
    if ex and state[0] == "open" and cfg["h"] != "detach":
        return "no-terminal"
    for i, b in enumerate(case.get("bodies", [])):
        if b is None or i not in data:
            continue
        b = b.encode("latin-1")
        if not b.startswith(data[i]):
            return "data-not-prefix"
        if i in fin and data[i] != b:
            return "finish-with-partial-body"
    has_s = any(e[0] == "S" for e in case["events"])
    if sc is None:
        if has_s:
            return "server-close-lost"
    elif sc is True:
        if not ex:
            return "server-close-inconsistent"
    else:
        ok = (last == "H" and cfg["h"] in ("async", "asyncresp")) or (last == "D" and cfg["d"] == "async")
        if not ok:
            return "server-close-hangs"
    return None


def py_check(case, o):
    return _violation(case, o) is None


def signature(case, o):
    v = _violation(case, o)
    if v == "data-after-terminal" and case["cfg"]["bt"] and case["cfg"]["d"] == "async" and any(e[0] == "T" for e in case["events"]):
        return "data-after-close-on-body-timeout"
    return v or "ok"


# --------------------------------------------------------------------------- generator
def L(b):
    return b.decode("latin-1")


def mkcfg(h="sync", d="sync", f="sync", bt=False, chunk=65536, maxh=65536, maxbody=1000, cb=True, callable=False):
    """cb: the delegate registers connection.set_close_callback; callable: HTTPServer(plain callable) (implies
    sync headers/data handling by the server's own adapter and no close callback)"""
    if callable:
        h, d, cb = "sync", "sync", False
    return dict(h=h, d=d, f=f, bt=bt, chunk=chunk, maxh=maxh, maxbody=maxbody, cb=cb, callable=callable)


def mkreq(kind, body, rng):
    """-> (wire bytes, declared body or None)"""
    n = len(body)
    if kind == "get":
        return b"GET / HTTP/1.1\r\nHost: x\r\n\r\n", b""
    if kind == "get_lf":
        return b"GET / HTTP/1.1\nHost: x\n\n", b""
    if kind == "fixed":
        return b"POST / HTTP/1.1\r\nHost: x\r\nContent-Length: %d\r\n\r\n" % n + body, body
    if kind == "expect":
        return b"POST / HTTP/1.1\r\nHost: x\r\nExpect: 100-continue\r\nContent-Length: %d\r\n\r\n" % n + body, body
    if kind == "close":
        return b"POST / HTTP/1.1\r\nHost: x\r\nConnection: close\r\nContent-Length: %d\r\n\r\n" % n + body, body
    if kind == "http10":
        return b"POST / HTTP/1.0\r\nContent-Length: %d\r\n\r\n" % n + body, body
    if kind == "http10ka":
        return b"POST / HTTP/1.0\r\nConnection: keep-alive\r\nContent-Length: %d\r\n\r\n" % n + body, body
    if kind in ("chunked", "chunk_badterm", "chunk_badsize", "chunk_badlast", "chunk_longsize", "chunk_upper"):
        out = b"POST / HTTP/1.1\r\nHost: x\r\nTransfer-Encoding: chunked\r\n\r\n"
        i = 0
        pieces = []
        while i < n:
            k = rng.randint(1, 3)
            pieces.append(body[i:i + k])
            i += k
        bad_at = rng.randrange(len(pieces)) if pieces else -1
        for j, c in enumerate(pieces):
            size = b"%x" % len(c)
            if kind == "chunk_upper":
                size = b"0" + size.upper()
            if kind == "chunk_badsize" and j == bad_at:
                size = rng.choice([b"", b"g", b"-1", b"0x1", b" 1"])
            if kind == "chunk_longsize" and j == bad_at:
                size = b"0" * 70 + size
            term = b"\r\n"
            if kind == "chunk_badterm" and j == bad_at:
                term = rng.choice([b"xx", b"\n\n", b"\rx"])
            out += size + b"\r\n" + c + term
        out += b"0\r\n" + (rng.choice([b"ab", b"\n\r", b"x\n"]) if kind == "chunk_badlast" else b"\r\n")
        return out, body
    if kind == "bad_start":
        return rng.choice([b"GET /\r\n\r\n", b"GET / HTTP/9\r\n\r\n", b"\r\n\r\n"]), None
    if kind == "bad_header":
        return b"GET / HTTP/1.1\r\nbad header\r\n\r\n", None
    if kind == "cl_te":
        return b"POST / HTTP/1.1\r\nHost: x\r\nContent-Length: %d\r\nTransfer-Encoding: chunked\r\n\r\n" % n + body, None
    if kind == "bad_cl":
        return b"POST / HTTP/1.1\r\nHost: x\r\nContent-Length: x\r\n\r\n" + body, None
    if kind == "dup_cl":
        return b"POST / HTTP/1.1\r\nHost: x\r\nContent-Length: %d\r\nContent-Length: %d\r\n\r\n" % (n, n) + body, body
    if kind == "big_cl":
        return b"POST / HTTP/1.1\r\nHost: x\r\nContent-Length: 99999999\r\n\r\n" + body, None
    raise AssertionError(kind)


VALID = ["get", "get_lf", "fixed", "fixed", "expect", "close", "http10", "http10ka", "chunked", "chunked", "chunk_upper", "dup_cl"]
MALFORMED = ["chunk_badterm", "chunk_badsize", "chunk_badlast", "chunk_longsize", "bad_start", "bad_header", "cl_te", "bad_cl", "big_cl"]


def rbody(rng, n=None):
    if n is None:
        n = rng.choice([0, 1, 2, 3, 5, 8])
    return bytes(rng.choice(b"abcdefgh\r\n0") for _ in range(n))


def mkstream(rng, nreq=None, kinds=None):
    if kinds is None:
        nreq = nreq or rng.choice([1, 1, 2, 2, 3])
        kinds = [rng.choice(VALID if rng.random() < 0.75 else MALFORMED) for _ in range(nreq)]
    wire = b""
    bodies = []
    for k in kinds:
        w, b = mkreq(k, rbody(rng), rng)
        wire += w
        bodies.append(b)
    return wire, bodies


def segment(data, mode, rng):
    if not data:
        return []
    if mode == "one":
        return [data]
    if mode == "bytes":
        return [data[i:i + 1] for i in range(len(data))]
    k = min(len(data) - 1, rng.randint(1, 5))
    cuts = sorted(rng.sample(range(1, len(data)), k)) if k > 0 else []
    out, prev = [], 0
    for c in cuts + [len(data)]:
        out.append(data[prev:c])
        prev = c
    return out


def schedule(wire, k, disc, segmode, acts, rng, tail_acts=3, feed_rest=False):
    """disconnect after the first k bytes of the wire"""
    evs = []
    for seg in segment(wire[:k], segmode, rng):
        evs.append(["F", L(seg)])
        if acts == "eager" or (acts == "rand" and rng.random() < 0.5):
            evs.append(["A"])
    if disc:
        evs.append([disc])
    if feed_rest and k < len(wire):
        evs.append(["F", L(wire[k:])])
    evs += [["A"]] * tail_acts
    return evs


def mkcase(cfg, evs, bodies):
    return {"cfg": dict(cfg), "events": evs, "bodies": [None if b is None else L(b) for b in bodies]}


def corpus_cases():
    out = []
    hdr = b"POST / HTTP/1.1\r\nHost: x\r\nContent-Length: 6\r\n\r\n"
    # body timeout while an asynchronous data_received is pending and more body is buffered: before fix
    # bd9b133 the un-cancelled body reader called data_received again after on_connection_close
    out.append(mkcase(mkcfg(d="async", bt=True), [["F", L(hdr)], ["F", "ab"], ["F", "cdef"], ["T"], ["A"], ["A"]], [b"abcdef"]))
    # same schedule without the buffered remainder / without the timeout
    out.append(mkcase(mkcfg(d="async", bt=True), [["F", L(hdr)], ["F", "ab"], ["T"], ["A"], ["F", "cdef"], ["A"]], [b"abcdef"]))
    out.append(mkcase(mkcfg(d="async", bt=True), [["F", L(hdr)], ["F", "ab"], ["F", "cdef"], ["A"], ["A"], ["A"]], [b"abcdef"]))
    # C01 witness 002b519: request after 'Connection: close' in the same segment must not start
    w = b"GET /1 HTTP/1.1\r\nConnection: close\r\n\r\nGET /2 HTTP/1.1\r\n\r\n"
    out.append(mkcase(mkcfg(), [["F", L(w)], ["A"]], [b"", b""]))
    # malformed chunk terminator (c8fa85f) -> 400 + on_connection_close
    w = b"POST / HTTP/1.1\r\nTransfer-Encoding: chunked\r\n\r\n2\r\nabXX0\r\n\r\n"
    out.append(mkcase(mkcfg(), [["F", L(w)]], [b"ab"]))
    # client goes away while the application is still producing the response
    out.append(mkcase(mkcfg(f="async"), [["F", L(b"GET / HTTP/1.1\r\nHost: x\r\n\r\n")], ["E"], ["A"]], [b""]))
    # early response from a streaming handler, then the rest of the body
    out.append(mkcase(mkcfg(d="respond"), [["F", L(hdr + b"ab")], ["F", "cdef"], ["E"]], [b"abcdef"]))
    # shutdown while the handler's Future is pending, then the handler continues
    out.append(mkcase(mkcfg(h="async"), [["F", L(hdr + b"abcdef")], ["S"], ["A"], ["A"]], [b"abcdef"]))
    out.append(mkcase(mkcfg(h="detach"), [["F", L(hdr + b"abcdef")], ["S"]], [b"abcdef"]))
    # nobody registered a close callback and the connection closes while the response is pending:
    # _finish_future must still be resolved so that the loop exits and close_all_connections completes
    get = b"GET / HTTP/1.1\r\nHost: x\r\n\r\n"
    out.append(mkcase(mkcfg(f="async", cb=False), [["F", L(get)], ["S"]], [b""]))
    out.append(mkcase(mkcfg(f="async", cb=False), [["F", L(get)], ["E"], ["S"], ["A"]], [b""]))
    out.append(mkcase(mkcfg(f="async", callable=True), [["F", L(get)], ["S"]], [b""]))
    out.append(mkcase(mkcfg(f="async", callable=True), [["F", L(hdr + b"abcdef")], ["E"], ["S"]], [b"abcdef"]))
    return out


def rand_cfg(rng, bias=None):
    cfg = mkcfg(h=rng.choice(["sync"] * 4 + HMODES), d=rng.choice(["sync"] * 2 + ["async"] * 2 + DMODES),
                f=rng.choice(["sync"] * 2 + ["async"] * 2 + FMODES), bt=rng.random() < 0.5,
                chunk=rng.choice([1, 2, 3, 4, 8, 65536, 65536]), maxh=rng.choice([65536, 65536, 65536, 48]),
                maxbody=rng.choice([1000, 1000, 4]), cb=rng.random() < 0.6)
    if rng.random() < 0.12:
        cfg = mkcfg(f=cfg["f"], bt=cfg["bt"], chunk=cfg["chunk"], maxh=cfg["maxh"], maxbody=cfg["maxbody"], callable=True)
    if bias:
        cfg.update(bias)
    return cfg


def gen_cases(rng, tier):
    out = []
    quick = tier != "thorough"
    # (1) disconnect-point sweeps: every byte offset of a 1-2 request stream x disconnect kind x handler kind
    handler_kinds = [dict(), dict(f="async"), dict(f="async", cb=False), dict(f="async", callable=True), dict(h="async", d="async"), dict(h="async", d="async", f="async"),
                     dict(d="async", bt=True), dict(d="respond"), dict(h="asyncresp"), dict(h="respond"),
                     dict(d="raise"), dict(f="raise"), dict(h="raise"), dict(h="detach"), dict(d="async", chunk=2, bt=True),
                     dict(chunk=3), dict(h="async", d="async", f="async", chunk=1)]
    streams = [["fixed"], ["chunked"], ["fixed", "get"], ["chunked", "fixed"], ["expect", "close"], ["http10ka", "http10"]]
    if quick:
        combos = [(s, hk) for s in streams[:4] for hk in handler_kinds[:7]]
        rng.shuffle(combos)
        combos = combos[:7]
        combos += [(["fixed", "get"], dict(f="async", cb=False)), (["get"], dict(f="async", callable=True))]
    else:
        combos = [(s, hk) for s in streams for hk in handler_kinds]
        rng.shuffle(combos)
        combos = combos[:45]
    for kinds, hk in combos:
        wire, bodies = mkstream(rng, kinds=kinds)
        cfg = mkcfg(**hk)
        discs = ["E", "T", "S"] if not quick else [rng.choice(["E", "T", "S"])]
        for disc in discs:
            for k in range(len(wire) + 1):
                segmode = rng.choice(["one", "rand", "rand"]) if quick else rng.choice(["one", "rand", "bytes"])
                acts = rng.choice(["eager", "late", "rand"])
                out.append(mkcase(cfg, schedule(wire, k, disc, segmode, acts, rng, feed_rest=rng.random() < 0.3), bodies))
    # (2) random structured streams (mostly valid + malformed), random schedules
    for _ in range(700 if quick else 4000):
        wire, bodies = mkstream(rng)
        cfg = rand_cfg(rng)
        if rng.random() < 0.3:
            wire = wire[:rng.randint(0, len(wire))]
        evs = [["F", L(s)] for s in segment(wire, rng.choice(["one", "rand", "rand", "bytes"] if len(wire) < 80 else ["one", "rand"]), rng)]
        for _ in range(rng.randint(0, 8)):
            evs.insert(rng.randint(0, len(evs)), [rng.choice(["A", "A", "A", "T", "E", "S"])])
        if rng.random() < 0.5:
            evs.append(["E"])
        evs += [["A"]] * rng.randint(0, 3)
        out.append(mkcase(cfg, evs, bodies))
    # (3) the orphaned body reader: body timeout with a pending data_received and buffered body bytes
    for _ in range(40 if quick else 400):
        body = rbody(rng, rng.randint(2, 9))
        kind = rng.choice(["fixed", "chunked"])
        wire, b = mkreq(kind, body, rng)
        cfg = mkcfg(d="async", bt=True, chunk=rng.choice([1, 2, 3, 65536]), f=rng.choice(FMODES))
        hdr_end = wire.index(b"\r\n\r\n") + 4
        k = rng.randint(hdr_end + 1, len(wire))
        evs = [["F", L(wire[:k])]] + ([["F", L(wire[k:])]] if k < len(wire) else []) + [["A"]] * rng.randint(0, 2) + [["T"]] + [["A"]] * rng.randint(1, 6)
        out.append(mkcase(cfg, evs, [b]))
    # (3b) response phase: the request is fully read, finish() delivered, the response still pending; then the
    # peer goes away / the server shuts down / both, for delegates with and without a close callback
    for kind in ("get", "fixed", "chunked", "http10ka"):
        for hk in (dict(f="async", cb=False), dict(f="async", callable=True), dict(f="async"), dict(f="async", cb=False, d="async")):
            for tail in (["E"], ["S"], ["E", "S"], ["S", "A"], ["E", "A", "S"], ["A", "E", "S"], ["T", "S"]):
                wire, b = mkreq(kind, rbody(rng), rng)
                evs = [["F", L(s)] for s in segment(wire, rng.choice(["one", "rand"]), rng)]
                evs += [["A"]] * (3 if hk.get("d") == "async" else 0)
                evs += [[t] for t in tail] + [["A"]]
                out.append(mkcase(mkcfg(**hk), evs, [b]))
    # (4) small-scope exhaustive: one short request, all handler-mode triples x all single disconnect points
    if not quick:
        wire, bodies = mkreq("fixed", b"abc", rng)
        hdr_end = wire.index(b"\r\n\r\n") + 4
        for h in HMODES:
            for d in DMODES:
                for f in FMODES:
                    for bt in (False, True):
                        for k in range(hdr_end - 2, len(wire) + 1):
                            for disc in ("E", "T", "S"):
                                cfg = mkcfg(h=h, d=d, f=f, bt=bt, chunk=2)
                                out.append(mkcase(cfg, schedule(wire, k, disc, "one", "late", rng, tail_acts=4), [bodies]))
    return out


def nontrivial(case, o):
    if isinstance(o, list) and o and isinstance(o[0], list) and len(o[0]) > 0:
        return _key(case)
    return None


def classify(case, o):
    cfg = case["cfg"]
    yield "h=" + cfg["h"]
    yield "d=" + cfg["d"]
    yield "f=" + cfg["f"]
    yield "body_timeout=" + str(cfg["bt"])
    yield "delegate=" + ("callable-server" if cfg.get("callable") else "raw+close-callback" if cfg.get("cb", True) else "raw-no-close-callback")
    yield "chunk=" + ("big" if cfg["chunk"] > 100 else str(cfg["chunk"]))
    for k in ("E", "T", "S"):
        if any(e[0] == k for e in case["events"]):
            yield "event=" + k
    if isinstance(o, list) and len(o) == 5 and isinstance(o[0], list):
        ks = [str(e[0]) for e in o[0]]
        yield "requests=%d" % min(ks.count("H"), 3)
        yield "terminals=" + ("F" if "F" in ks else "") + ("C" if "C" in ks else "")
        if "CB" in ks:
            yield "close_callback"
        if 400 in o[1]:
            yield "sent400"
        if 100 in o[1]:
            yield "sent100"
        yield "exited=%s" % o[3]
        yield "verdict=" + (signature(case, o))


def shrink(case):
    evs = case["events"]
    for i in range(len(evs)):
        yield dict(case, events=evs[:i] + evs[i + 1:])
    for i, e in enumerate(evs):
        if e[0] == "F" and i + 1 < len(evs) and evs[i + 1][0] == "F":
            yield dict(case, events=evs[:i] + [["F", e[1] + evs[i + 1][1]]] + evs[i + 2:])
    if case["cfg"]["chunk"] != 65536:
        yield dict(case, cfg=dict(case["cfg"], chunk=65536))
    if case["cfg"].get("callable"):
        yield dict(case, cfg=dict(case["cfg"], callable=False))


LEVEL_TEXT = ("Machine-checked (Coq) invariant proofs over a program-counter model of HTTP1Connection._read_message (need_delegate_close / finally, "
              "early finish, detach, 400 path, body timeout), _on_connection_close, _server_request_loop and close_all_connections on top of a model of "
              "the IOStream read side: along EVERY event list (peer bytes in any segmentation, peer EOF, handler continuation, body timeout, server "
              "shutdown) and for every header parser, every request that received headers is told at most one of finish / on_connection_close, never "
              "both, exactly one once the request loop has exited (unless detached); the data_received chunks are a prefix of the payload of the body encoding on the wire (Content-Length and chunked grammar) and the whole payload on finish; after close_all_connections the loop has exited or waits only on a handler Future. The model is tied to the real server by running identical schedules "
              "through HTTPServer over a scripted stream under a virtual clock and comparing complete delegate traces.")
LEVEL_NOTE = ("Trusted: Coq kernel/vm_compute; header facts (keep-alive, Expect, framing) are computed per header block by Tornado's own parser functions and "
              "the theorems quantify over every such function; FakeIOStream (writes complete at once); one connection per case; asyncio task cancellation and GC "
              "timing are outside the model.")
TECHNIQUE = "Coq proof (step invariants of a PC machine, all event lists) + differential correspondence of full delegate traces via vm_compute"
TRUSTED_BASE = [
    "harness/fake_iostream.py scripted transport (every write is accepted at once; reads deliver exactly the scripted segments) and harness/vclock.py",
    "header facts per header block come from Tornado's _parse_headers / parse_request_start_line / _can_keep_alive / _read_body called by the harness; "
    "the Coq theorems hold for every header-facts function",
    "the scripted delegate (harness) is the only application code; web.RequestHandler's own bookkeeping is not modelled",
    "single connection per case; close_all_connections over several connections is the same loop per connection (set iteration order not modelled)",
]
ASSUMPTIONS = ["chunk_size >= 1", "total bytes buffered stay below max_buffer_size (100 MB)",
               "fewer than 360 body-timeout periods elapse while a header block is awaited (idle_connection_timeout 3600 s is not modelled)"]
RULE = ("every byte offset of 1-2 request streams as disconnect point x {EOF, body timeout, close_all_connections} x handler kinds "
        "(sync / async / streaming with pending Futures / early response / raising / detach) + random structured and malformed streams with random "
        "segmentation and schedules; distinct by canonical JSON of the case; non-trivial = at least one delegate call observed")
