"""C44 — tornado.options: command-line / config values parse to the values they denote."""
import contextlib
import datetime
import io
import json
import math
import os
import tempfile
from fractions import Fraction

from harness import gallina as G
from harness.framework import SCRATCH

ID = "C44"
COQ_DIRS = ["C44", "Gen"]
PROPERTY_FILE = "C44/Property.v"
RUN_IMPORTS = "From TV Require Import C44.Model C44.Run."
RUN_FN = "run_case"
CHECK_FN = "check_case"
INPUT_TYPE = "input"

def pre_build():
    """regenerate Gen/C44_src.v (bool word tables, timedelta unit table, datetime formats, regex patterns and the
    source text of the modelled methods) from the working tree; fails closed"""
    import importlib
    import sys
    from harness.framework import REPO, COQ
    sys.path.insert(0, os.path.join(os.path.dirname(COQ), "translators"))
    import c44_src
    importlib.reload(c44_src)
    c44_src.emit(REPO, os.path.join(COQ, "Gen", "C44_src.v"))


TYPES = {"str": str, "int": int, "float": float, "bool": bool,
         "datetime": datetime.datetime, "timedelta": datetime.timedelta}
COQ_TY = {"str": "TStr", "int": "TInt", "float": "TFloat", "bool": "TBool",
          "datetime": "TDatetime", "timedelta": "TTimedelta"}
TY_NAMES = list(TYPES)


# ----------------------------------------------------------------------------
# JSON value encoding  <->  Python values  <->  Gallina / observables
def float_me(x):
    """finite float -> (odd mantissa, exponent) with x == m * 2**e (0 -> (0, 0))"""
    n, d = x.as_integer_ratio()
    if n == 0:
        return 0, 0
    e = -(d.bit_length() - 1)
    while n % 2 == 0:
        n //= 2
        e += 1
    return n, e


def enc(v):
    if v is None:
        return None
    if isinstance(v, bool):
        return {"b": v}
    if isinstance(v, int):
        return {"i": v}
    if isinstance(v, str):
        return {"s": v}
    if isinstance(v, float):
        if math.isnan(v):
            return {"f": "nan"}
        if math.isinf(v):
            return {"f": "inf" if v > 0 else "-inf"}
        return {"f": list(float_me(v))}
    if isinstance(v, datetime.datetime):
        return {"dt": [v.year, v.month, v.day, v.hour, v.minute, v.second]}
    if isinstance(v, datetime.timedelta):
        return {"td": (v.days * 86400 + v.seconds) * 10 ** 6 + v.microseconds}
    if isinstance(v, list):
        return {"l": [enc(x) for x in v]}
    raise TypeError(type(v))


def dec(j):
    if j is None:
        return None
    (k, x), = j.items()
    if k in ("b", "i", "s"):
        return x
    if k == "f":
        if isinstance(x, str):
            return float(x)
        return math.ldexp(x[0], x[1])
    if k == "dt":
        return datetime.datetime(*x)
    if k == "td":
        return datetime.timedelta(microseconds=x)
    if k == "l":
        return [dec(y) for y in x]
    raise ValueError(j)


def pyobs(v):
    """Python value -> canonical observable"""
    if v is None or isinstance(v, (bool, int, str)):
        return v
    if isinstance(v, float):
        if math.isnan(v):
            return G.Tag("nan")
        if math.isinf(v):
            return G.Tag("inf" if v > 0 else "-inf")
        m, e = float_me(v)
        return [G.Tag("f"), m, e]
    if isinstance(v, datetime.datetime):
        if v.microsecond or v.tzinfo is not None:
            return [G.Tag("dt-extra"), repr(v)]
        return [G.Tag("dt"), v.year, v.month, v.day, v.hour, v.minute, v.second]
    if isinstance(v, datetime.timedelta):
        return [G.Tag("td"), (v.days * 86400 + v.seconds) * 10 ** 6 + v.microseconds]
    if isinstance(v, list):
        return [pyobs(x) for x in v]
    return [G.Tag("other"), type(v).__name__]


def gval(j):
    if j is None:
        return "VNone"
    (k, x), = j.items()
    if k == "b":
        return "(VBool %s)" % G.gbool(x)
    if k == "i":
        return "(VInt %s)" % G.gz(x)
    if k == "s":
        return "(VStr %s)" % G.gbytes(x)
    if k == "f":
        if x == "nan":
            return "(VFloat FNan)"
        if x == "inf":
            return "(VFloat (FInf false))"
        if x == "-inf":
            return "(VFloat (FInf true))"
        return "(VFloat (FFin %s %s))" % (G.gz(x[0]), G.gz(x[1]))
    if k == "dt":
        return "(VDt (dt %s))" % " ".join(G.gz(y) for y in x)
    if k == "td":
        return "(VTd %s)" % G.gz(x)
    if k == "l":
        return "(VList %s)" % G.glist([gval(y) for y in x], "value")
    raise ValueError(j)


def pylit(j):
    """config-file literal for an encoded value"""
    if j is None:
        return "None"
    (k, x), = j.items()
    if k in ("b", "i", "s"):
        return repr(x)
    if k == "f":
        if isinstance(x, str):
            return "float(%r)" % x
        return repr(math.ldexp(x[0], x[1]))
    if k == "dt":
        return "datetime.datetime(%s)" % ", ".join(map(str, x))
    if k == "td":
        return "datetime.timedelta(microseconds=%d)" % x
    if k == "l":
        return "[" + ", ".join(pylit(y) for y in x) + "]"
    raise ValueError(j)


# ----------------------------------------------------------------------------
# implementation runner
def _tag(e):
    from tornado.options import Error
    if type(e) is Error:
        return G.Tag("Error")
    for cls, name in ((OverflowError, "OverflowError"), (ValueError, "ValueError"), (TypeError, "TypeError"), (AttributeError, "AttributeError")):
        if isinstance(e, cls):
            return G.Tag(name)
    if type(e) is Exception:
        return G.Tag("Exception")
    raise e


def run_impl(case):
    from tornado.options import OptionParser, Error
    o = OptionParser()
    for d in case["defs"]:
        kw = {"default": dec(d["default"]), "multiple": d["multiple"]}
        if d["ty"] is not None:
            kw["type"] = TYPES[d["ty"]]
        try:
            o.define(d["name"], **kw)
        except Error:
            return [G.Tag("DefineError")]
    outs = []
    for s in case["srcs"]:
        try:
            if "cmd" in s:
                with contextlib.redirect_stderr(io.StringIO()):
                    rem = o.parse_command_line(list(s["cmd"]))
                outs.append(list(rem))
            elif "set" in s:
                for i, (name, v) in enumerate(s["set"]):
                    if i % 2:
                        o[name] = dec(v)          # __setitem__
                    else:
                        setattr(o, name, dec(v))  # __setattr__
                outs.append([])
            else:
                fd, path = tempfile.mkstemp(prefix="c44_", suffix=".conf", dir=SCRATCH)
                try:
                    with os.fdopen(fd, "w", encoding="utf-8") as f:
                        f.write("import datetime\n")
                        for name, v in s["cfg"]:
                            f.write("%s = %s\n" % (name, pylit(v)))
                    o.parse_config_file(path)
                finally:
                    os.unlink(path)
                outs.append([])
        except Exception as e:
            outs.append(_tag(e))
            break
    vals = [pyobs(opt.value()) for key, opt in o._options.items() if key != "help"]
    return [outs, vals]


def coq_input(case):
    defs = []
    for d in case["defs"]:
        ty = "None" if d["ty"] is None else "(Some %s)" % COQ_TY[d["ty"]]
        defs.append("dd %s %s %s %s" % (G.gbytes(d["name"]), ty, G.gbool(d["multiple"]), gval(d["default"])))
    srcs = []
    for s in case["srcs"]:
        if "cmd" in s:
            srcs.append("SCmd %s" % G.glist([G.gbytes(a) for a in s["cmd"]], "text"))
        else:
            key = "cfg" if "cfg" in s else "set"
            srcs.append("%s %s" % ("SCfg" if key == "cfg" else "SSet", G.glist(["(%s, %s)" % (G.gbytes(n), gval(v)) for n, v in s[key]], "(text * value)")))
    return "(%s, %s)" % (G.glist(defs, "optdef"), G.glist(srcs, "source"))


def _eff_type(d):
    if d["ty"] is not None:
        return TYPES[d["ty"]]
    v = dec(d["default"])
    return type(v) if (not d["multiple"] and v is not None) else str


def _well_typed(d, v):
    t = _eff_type(d)
    if d["multiple"]:
        return isinstance(v, list) and all(x is None or isinstance(x, t) for x in v)
    return v is None or isinstance(v, t)


def accepted_values_ok(case, o):
    """values of the wrong type are rejected, element-wise: a config file / run of attribute assignments that
    completed without raising bound every defined option only to well-typed objects (config strings are parsed)"""
    if not (isinstance(o, list) and len(o) == 2 and isinstance(o[0], list)):
        return True
    defs = {}
    for d in case["defs"]:
        defs.setdefault(norm(d["name"]), d)
    for s, out in zip(case["srcs"], o[0]):
        if isinstance(out, G.Tag) or "cmd" in s:
            continue
        cfg = "cfg" in s
        for name, jv in s["cfg" if cfg else "set"]:
            d = defs.get(norm(name))
            if d is None:
                if not cfg:
                    return False        # assignment to an undefined option must raise
                continue
            v = dec(jv)
            if cfg and isinstance(v, str):
                continue
            if not _well_typed(d, v):
                return False
    return True


US_DAY = 86400 * 10 ** 6


def ref_timedelta(text):
    """Independent reference reading of a timedelta text made of integer components: scan left to right
    (blanks, [sign]digits, blanks, unit letters), look the unit up, ADD the components.  Returns total
    microseconds, or None when the text is outside this simple integer form / out of range (no claim)."""
    ws = set(WS_RE)
    i, n, total = 0, len(text), 0
    while i < n:
        while i < n and text[i] in ws:
            i += 1
        if i >= n:
            return None            # trailing blanks only after a component are eaten below; leading-only text is an error
        sign = 1
        if text[i] in "+-":
            sign = -1 if text[i] == "-" else 1
            i += 1
        j = i
        while j < n and text[j] in "0123456789":
            j += 1
        if j == i or (j < n and text[j] in ".eE"):
            return None
        num = sign * int(text[i:j])
        if abs(num) >= 2 ** 53:
            return None
        i = j
        while i < n and text[i] in ws:
            i += 1
        j = i
        while j < n and ("a" <= text[j] <= "z" or "A" <= text[j] <= "Z"):
            j += 1
        if j < n and (text[j] in "0123456789_" or ord(text[j]) > 127):
            return None            # the unit would extend over word characters this reader does not classify
        unit = text[i:j]
        if unit not in UNITS:
            return None
        i = j
        while i < n and text[i] in ws:
            i += 1
        term = num * UNITS[unit]
        if abs(term // US_DAY) > 999999999 and not (-999999999 <= term // US_DAY <= 999999999):
            return None
        total += term
        if not (-999999999 <= total // US_DAY <= 999999999) or not (-999999999 <= term // US_DAY <= 999999999):
            return None
    return total


def _td_claim(case, o, key, text):
    """the option `key`, assigned `text` and never mentioned again, must show the reference sum"""
    for idx, d in enumerate(case["defs"]):
        if norm(d["name"]) == key:
            break
    else:
        return True
    if _eff_type(d) is not datetime.timedelta:
        return True
    if d["multiple"]:
        parts = [ref_timedelta(p) for p in text.split(",")]
        if any(p is None for p in parts):
            return True
        want = [[G.Tag("td"), p] for p in parts]
    else:
        r = ref_timedelta(text)
        if r is None:
            return True
        want = [G.Tag("td"), r]
    try:
        return _same(o[1][idx], want)
    except Exception:
        return False


def _mentions(s, key):
    if "cmd" in s:
        return any(norm(a.lstrip("-").partition("=")[0]) == key for a in s["cmd"])
    return any(norm(n) == key for n, _ in _items(s))


def timedelta_sum_ok(case, o):
    """a timedelta text denotes the SUM of its components (first assignment of the first source, option not mentioned again)"""
    if len({norm(d["name"]) for d in case["defs"]}) != len(case["defs"]) or not case["srcs"]:
        return True
    if not (isinstance(o, list) and len(o) == 2 and isinstance(o[1], list)):
        return True
    s0, rest = case["srcs"][0], case["srcs"][1:]
    if "cmd" in s0 and len(s0["cmd"]) >= 2:
        a = s0["cmd"][1]
        name, eq, val = a.lstrip("-").partition("=")
        later = [{"cmd": [s0["cmd"][0]] + s0["cmd"][2:]}] + rest
        if a.startswith("-") and eq and not any(_mentions(x, norm(name)) for x in later):
            return _td_claim(case, o, norm(name), val)
    if "cfg" in s0 and s0["cfg"] and isinstance(s0["cfg"][0][1], dict) and "s" in s0["cfg"][0][1]:
        name, v = s0["cfg"][0]
        later = [{"cfg": s0["cfg"][1:]}] + rest
        if not any(_mentions(x, norm(name)) for x in later):
            return _td_claim(case, o, norm(name), v["s"])
    return True


def py_check(case, o):
    """independent oracle: (a) accepted objects are well-typed element-wise; (b) the generator knows which values it printed"""
    if not accepted_values_ok(case, o) or not timedelta_sum_ok(case, o):
        return False
    exp = case.get("expect")
    if exp is None:
        return True
    want = [[x if isinstance(x, list) else G.Tag(x) for x in exp["outs"]], [pyobs(dec(v)) for v in exp["vals"]]]
    return _same(o, want)


def _same(a, b):
    if isinstance(a, G.Tag) or isinstance(b, G.Tag):
        return isinstance(a, G.Tag) and isinstance(b, G.Tag) and str(a) == str(b)
    if isinstance(a, (list, tuple)) or isinstance(b, (list, tuple)):
        return isinstance(a, (list, tuple)) and isinstance(b, (list, tuple)) and len(a) == len(b) and all(_same(x, y) for x, y in zip(a, b))
    return type(a) is type(b) and a == b


# ----------------------------------------------------------------------------
# value generators: (text, expected encoded value or "?" when not claimed)
UNK = "?"
WS_NUM = [" ", "\t", "\n", "\x0b", "\x0c", "\r", "\x85", "\xa0"]
WS_RE = WS_NUM + ["\x1c", "\x1d", "\x1e", "\x1f"]
JUNK = list("0123456789") + list("-+._:,= eEtTxhmsdw") + WS_RE + ["\x00", "\xb2", "\xe9", "\xbd", "\xaa", "\u2192", "€", "a", "Z", "_", "/"]
INT_EDGES = [0, 1, -1, 9, 10, 99, 100, 255, 2 ** 31 - 1, 2 ** 31, -2 ** 31, 2 ** 53, 2 ** 63, 2 ** 64, -2 ** 64 - 1, 10 ** 20, 10 ** 30 + 7]


def us_insert(rng, digits):
    out = digits[0]
    for c in digits[1:]:
        if rng.random() < 0.3:
            out += "_"
        out += c
    return out


def gen_int(rng):
    v = rng.choice([rng.choice(INT_EDGES), rng.randrange(-50, 50), rng.randrange(-10 ** 6, 10 ** 6), rng.randrange(-10 ** 25, 10 ** 25)])
    form = rng.randrange(6)
    digits = str(abs(v))
    sign = "-" if v < 0 else ""
    if form == 0:
        t = str(v)
    elif form == 1:
        t = (sign or "+") + digits
    elif form == 2:
        t = sign + "0" * rng.randrange(1, 4) + digits
    elif form == 3:
        t = "".join(rng.choice(WS_NUM) for _ in range(rng.randrange(3))) + str(v) + "".join(rng.choice(WS_NUM) for _ in range(rng.randrange(3)))
    elif form == 4:
        t = sign + us_insert(rng, digits)
    else:
        t = rng.choice(WS_NUM) + (sign or rng.choice(["", "+"])) + us_insert(rng, "0" * rng.randrange(2) + digits) + rng.choice(WS_NUM)
    return t, enc(v)


FLOAT_EDGE_TEXT = ["0.1", "1e308", "1.7976931348623157e308", "1.7976931348623158e308", "1.7976931348623159e308", "1.8e308",
                   "5e-324", "4.9406564584124654e-324", "2.4703282292062327e-324", "2.4703282292062328e-324", "2.48e-324",
                   "2.2250738585072014e-308", "2.2250738585072011e-308", "9007199254740993", "9007199254740992", "9007199254740995",
                   "1e22", "1e23", "0.30000000000000004", "1e400", "-1e400", "1e-400", "0", "-0", "0e999999999", "1e-999999999",
                   "1e999999999", "123456789012345678901234567890", "0.000000000000000000000000000001", ".5", "5.", "1_0.2_5",
                   "179769313486231580793728971405303415079934132710037826936173778980444968292764750946649017977587207096330286416692887910946555547851940402630657488671505820681908902000708383676273854845817711531764475730270069855571366959622842914819860834936475292719074168444365510704342711559699508093042880177904174497791.999",
                   "179769313486231580793728971405303415079934132710037826936173778980444968292764750946649017977587207096330286416692887910946555547851940402630657488671505820681908902000708383676273854845817711531764475730270069855571366959622842914819860834936475292719074168444365510704342711559699508093042880177904174497792"]


def gen_float(rng):
    k = rng.randrange(8)
    if k == 0:
        t = rng.choice(FLOAT_EDGE_TEXT)
        return rng.choice(["", "-", "+"]) + t if rng.random() < 0.3 else t, UNK
    if k == 1:
        t = rng.choice(["inf", "Infinity", "nan", "-inf", "+nan", "INF", "iNfInItY", "-NaN", "infinit", "in", "nan0", "inf_"])
        return t, UNK
    if k == 2:   # dyadic
        v = rng.randrange(-2 ** 20, 2 ** 20) / 2 ** rng.randrange(0, 12)
        return repr(v), enc(v)
    if k == 3:   # repr of a random double
        v = rng.choice([rng.random(), rng.uniform(-1e6, 1e6), rng.random() * 10 ** rng.randrange(-320, 308), float(rng.randrange(-10 ** 18, 10 ** 18))])
        return repr(v), enc(v)
    mant = "".join(rng.choice("0123456789") for _ in range(rng.randrange(1, 25)))
    frac = "".join(rng.choice("0123456789") for _ in range(rng.randrange(0, 25)))
    t = rng.choice(["", "-", "+"]) + rng.choice([mant, mant + "." + frac, "." + (frac or "0"), mant + "."])
    if rng.random() < 0.5:
        t += rng.choice("eE") + rng.choice(["", "-", "+"]) + str(rng.choice([rng.randrange(0, 30), rng.randrange(280, 340), rng.randrange(0, 400)]))
    if rng.random() < 0.15:
        t = us_insert(rng, t)
    if rng.random() < 0.2:
        t = rng.choice(WS_NUM) + t + rng.choice(WS_NUM)
    return t, UNK


BOOL_WORDS = {"true": True, "1": True, "t": True, "yes": True, "y": True, "on": True,
              "false": False, "0": False, "f": False, "no": False, "n": False, "off": False}


def gen_bool(rng):
    w = rng.choice(list(BOOL_WORDS))
    t = "".join(c.upper() if rng.random() < 0.4 else c for c in w)
    return t, enc(BOOL_WORDS[w])


WD = ["Mon", "Tue", "Wed", "Thu", "Fri", "Sat", "Sun"]
MON = ["Jan", "Feb", "Mar", "Apr", "May", "Jun", "Jul", "Aug", "Sep", "Oct", "Nov", "Dec"]
NFORMATS = 10


def dim(y, m):
    if m == 2:
        return 29 if (y % 4 == 0 and y % 100 != 0) or y % 400 == 0 else 28
    return 30 if m in (4, 6, 9, 11) else 31


def print_dt(rng, k, f, loose):
    """text of fields f = (Y, m, d, H, M, S) in format k (0-based index into _DATETIME_FORMATS)"""
    Y, m, d, H, M, S = f
    compact = k in (4, 5, 7)

    def n2(x, may_unpad=True):
        if loose and may_unpad and rng.random() < 0.4:
            return str(x)
        return "%02d" % x

    def sp():
        return "".join(rng.choice(WS_RE) for _ in range(rng.randrange(1, 3))) if loose and rng.random() < 0.4 else " "

    def case(s):
        return "".join(rng.choice([c.upper(), c.lower()]) for c in s) if loose else s
    y4 = "%04d" % Y
    tm3 = lambda: n2(H) + ":" + n2(M) + ":" + n2(S)
    tm2 = lambda: n2(H) + ":" + n2(M)
    if k == 0:
        dd = n2(d) if rng.random() < 0.7 or d >= 10 else " " + str(d)
        return case(rng.choice(WD)) + sp() + case(MON[m - 1] if 1 <= m <= 12 else "Xxx") + sp() + dd + sp() + tm3() + sp() + y4
    if k in (1, 2, 3, 6):
        date = y4 + "-" + n2(m) + "-" + n2(d)
    else:
        date = y4 + n2(m, False) + n2(d, False)
    if k in (1, 4):
        return date + sp() + tm3()
    if k in (2, 5):
        return date + sp() + tm2()
    if k == 3:
        return date + case("T") + tm2()
    if k in (6, 7):
        return date
    return tm3() if k == 8 else tm2()


def dt_fields(rng):
    Y = rng.choice([rng.randrange(1, 10000), rng.choice([1, 999, 1900, 2000, 2024, 2023, 2100, 9999, 1600])])
    m = rng.randrange(1, 13)
    d = rng.choice([rng.randrange(1, dim(Y, m) + 1), dim(Y, m), 1])
    return [Y, m, d, rng.choice([rng.randrange(24), 0, 23]), rng.choice([rng.randrange(60), 0, 59]), rng.choice([rng.randrange(60), 0, 59])]


def dt_expected(k, f):
    Y, m, d, H, M, S = f
    if k in (2, 3, 5, 9):
        S = 0
    if k in (6, 7):
        H = M = S = 0
    if k in (8, 9):
        Y, m, d = 1900, 1, 1
    return {"dt": [Y, m, d, H, M, S]}


def gen_datetime(rng):
    k = rng.randrange(NFORMATS)
    f = dt_fields(rng)
    r = rng.random()
    if r < 0.5:
        return print_dt(rng, k, f, False), dt_expected(k, f)
    if r < 0.8:
        return print_dt(rng, k, f, True), (dt_expected(k, f) if k not in (4, 5, 7) else UNK)
    # out-of-range field
    i = rng.randrange(1, 6)
    f[i] = [None, rng.choice([0, 13, 19]), rng.choice([0, 29, 30, 31, 32, 39]), rng.choice([24, 25, 30]), rng.choice([60, 61, 99]), rng.choice([60, 61, 62, 99])][i]
    return print_dt(rng, k, f, False), UNK


UNITS = {"h": 3600 * 10 ** 6, "hours": 3600 * 10 ** 6, "m": 60 * 10 ** 6, "min": 60 * 10 ** 6, "minutes": 60 * 10 ** 6,
         "s": 10 ** 6, "sec": 10 ** 6, "seconds": 10 ** 6, "": 10 ** 6, "ms": 1000, "milliseconds": 1000,
         "us": 1, "microseconds": 1, "d": 86400 * 10 ** 6, "days": 86400 * 10 ** 6, "w": 7 * 86400 * 10 ** 6, "weeks": 7 * 86400 * 10 ** 6}
BAD_UNITS = ["H", "day", "hour", "x", "mins", "S", "e", "_", "h1", "\xe9", "\xb2", "ss", "Ms"]


UNIT_GROUPS = [["s", "sec", "seconds", ""], ["m", "min", "minutes"], ["h", "hours"], ["ms", "milliseconds"], ["us", "microseconds"], ["d", "days"], ["w", "weeks"]]


def gen_td_repeated(rng):
    """integer components, units deliberately repeated (same spelling / aliases / unit-less = seconds), negative terms"""
    groups = [rng.choice(UNIT_GROUPS) for _ in range(rng.choice([1, 1, 2]))]
    n = rng.choice([2, 2, 3, 4, 5])
    terms = []
    for i in range(n):
        u = rng.choice(rng.choice(groups))
        num = rng.choice([rng.randrange(0, 100), rng.randrange(-60, 100), rng.choice([90, 30, 15, 5, 1, 0, -15]), rng.randrange(0, 10 ** 5)])
        terms.append([num, u])
    for i, (num, u) in enumerate(terms):    # a unit-less number swallows a following unsigned component as its unit
        if u == "" and i < n - 1 and terms[i + 1][0] >= 0:
            terms[i][1] = "s"
    loose = rng.random() < 0.3
    parts = []
    for num, u in terms:
        parts.append(("%d" % num) + ((rng.choice(["", " ", "\t "]) if loose and u else "") + u))
    sep = (lambda: rng.choice([" ", "  ", "\t"])) if loose else (lambda: " ")
    t = parts[0]
    for p in parts[1:]:
        t += sep() + p
    total = sum(num * UNITS[u] for num, u in terms)
    run = 0
    ok = True
    for num, u in terms:
        run += num * UNITS[u]
        if abs(run // US_DAY) > 999999999 or abs((num * UNITS[u]) // US_DAY) > 999999999:
            ok = False
    return t, ({"td": total} if ok else UNK)


def gen_timedelta(rng):
    if rng.random() < 0.35:
        return gen_td_repeated(rng)
    nterms = rng.choice([1, 1, 1, 2, 3, 5])
    parts = []
    total = Fraction(0)
    exact = True
    for i in range(nterms):
        u = rng.choice(list(UNITS))
        if u == "" and i < nterms - 1:
            u = "s"
        r = rng.random()
        if r < 0.5:
            n = rng.choice([rng.randrange(0, 100), rng.randrange(-100, 100), rng.randrange(0, 10 ** 6), rng.choice([999999999, 10 ** 9, 2 ** 53 - 1, 2 ** 53 + 1, 86399999999999, 142857])])
            num = rng.choice(["%d", "%d", "+%d", "%d.", "%d.0", "%de0"]) % n if n >= 0 else "%d" % n
            total += n * UNITS[u]
            if abs(n) >= 2 ** 53:
                exact = False
        elif r < 0.75:
            q = Fraction(rng.randrange(-2 ** 12, 2 ** 16), 2 ** rng.randrange(1, 8))
            num = repr(float(q))
            v = q * UNITS[u]
            if v.denominator != 1:
                exact = False
            total += v
        else:
            num = rng.choice(["0.1", "0.3", "1.7", "2.5", "0.5", "1.5", "-0.5", "-1.5", "1e-7", "0.0000005", "1e3", "2.5e-1", ".1", "1.0000000001", "3.3333333", "1e15", "1e16", "1e300", "1e999", "4.35", "0.000001", "1.1e-6", "123456.789", "-0.1"])
            exact = False
        sep1 = rng.choice(["", "", " ", "  ", "\t"])
        parts.append(num + (sep1 if u else "") + u)
    t = rng.choice(["", " "]).join(parts) if all(p[-1:].isalpha() for p in parts[:-1]) else " ".join(parts)
    if any(p[-1:].isdigit() or p[-1:] == "." for p in parts[:-1]):
        exact = False
    if rng.random() < 0.2:
        t = " " + t + " "
    days = total // (86400 * 10 ** 6) if exact else 0
    if exact and total.denominator == 1 and abs(days) <= 999999999 and nterms == 1:
        return t, {"td": int(total)}
    return t, UNK


STR_ALPHA = list("abcXYZ019 -_=:.\"'\\#") + ["\xe9", "中", "\x00", "\t"]


def gen_str(rng, multiple=False):
    t = "".join(rng.choice(STR_ALPHA + ([] if multiple else [","])) for _ in range(rng.choice([0, 1, 2, 5, 12])))
    return t, enc(t)


GEN = {"str": gen_str, "int": gen_int, "float": gen_float, "bool": gen_bool, "datetime": gen_datetime, "timedelta": gen_timedelta}


def mutate(rng, t):
    r = rng.randrange(6)
    if r == 0 or not t:
        i = rng.randrange(len(t) + 1)
        return t[:i] + rng.choice(JUNK) + t[i:]
    i = rng.randrange(len(t))
    if r == 1:
        return t[:i] + t[i + 1:]
    if r == 2:
        return t[:i] + rng.choice(JUNK) + t[i + 1:]
    if r == 3:
        return t[:i]
    if r == 4:
        return t[:i] + t[i] + t[i:]
    return "".join(rng.choice(JUNK) for _ in range(rng.randrange(0, 6)))


def gen_text(rng, ty, multiple):
    """(text, expected encoded value | UNK) for an option of type ty"""
    if not multiple:
        t, e = GEN[ty](rng)
        if rng.random() < 0.22:
            return mutate(rng, t), UNK
        return t, e
    n = rng.choice([1, 2, 3, 4])
    texts, vals, known = [], [], True
    for _ in range(n):
        if ty == "int" and rng.random() < 0.5:
            lo = rng.choice([rng.randrange(-5, 30), rng.randrange(-10 ** 12, 10 ** 12)])
            hi = lo + rng.choice([0, 1, 2, 7, -1, -3])
            r = rng.random()
            if r < 0.7:
                texts.append("%d:%d" % (lo, hi))
                vals += list(range(lo, hi + 1))
            elif r < 0.85:
                texts.append("%d:" % lo)
                vals.append(lo)
            else:
                texts.append(rng.choice([":%d" % hi, "%d:%d:%d" % (lo, hi, hi), "%d::%d" % (lo, hi), ":"]))
                known = False
        else:
            t, e = (gen_str(rng, True) if ty == "str" else GEN[ty](rng))
            if "," in t:
                known = False
            if rng.random() < 0.1:
                t, e = mutate(rng, t), UNK
            texts.append(t)
            if e == UNK:
                known = False
            elif ty == "bool":
                vals.append(1 if dec(e) else 0)
            else:
                vals.append(dec(e))
    return ",".join(texts), ({"l": [enc(v) for v in vals]} if known else UNK)


NAMES = ["a", "b", "c", "ab", "a_b", "a-b", "b_c", "b-c", "c1", "x_y", "x-y", "opt", "o_p_t", "o-p-t", "n0", "_a", "a_", "port"]


def norm(n):
    return n.replace("_", "-")


def gen_default(rng, ty, multiple):
    if rng.random() < 0.4:
        return None
    def one():
        t, e = GEN[ty](rng)
        if e == UNK or e is None:
            return {"str": {"s": "dflt"}, "int": {"i": 7}, "float": {"f": [3, -1]}, "bool": {"b": True},
                    "datetime": {"dt": [2001, 2, 3, 4, 5, 6]}, "timedelta": {"td": 1500000}}[ty]
        return e
    if multiple:
        return {"l": [one() for _ in range(rng.randrange(0, 3))]}
    return one()


SAMPLE = {"str": [{"s": "a"}, {"s": ""}, {"s": "8002"}], "int": [{"i": 8001}, {"i": 0}, {"i": -3}], "float": [{"f": [3, -1]}, {"f": [0, 0]}, {"f": "inf"}],
          "bool": [{"b": True}, {"b": False}], "datetime": [{"dt": [2020, 1, 2, 3, 4, 5]}], "timedelta": [{"td": 1500000}, {"td": 0}]}


def mixed_list(rng, ty):
    good = SAMPLE[ty] + [None]
    bad = [v for t, vs in SAMPLE.items() if t != ty for v in vs] + [{"l": []}, {"l": [SAMPLE[ty][0]]}]
    if ty == "int":   # bool is an int
        bad = [v for v in bad if "b" not in v]
    n = rng.choice([2, 2, 3, 4])
    items = [rng.choice(good if rng.random() < 0.6 else bad) for _ in range(n)]
    if rng.random() < 0.7:    # make sure it really mixes
        items[rng.randrange(n)] = rng.choice(bad)
        j = rng.randrange(n)
        items[j] = rng.choice(good) if all(x in bad for x in items) else items[j]
    return {"l": items}


def typed_cases():
    """every type x {config file, attribute assignment}: well-typed, mixed and wrong-typed objects"""
    out = []
    for ty in TY_NAMES:
        g = SAMPLE[ty][0]
        other = "int" if ty != "int" else "str"
        w = SAMPLE[other][0]
        lists = [[g, w], [w, g], [None, w], [g, None, w], [w, w], [g, g], [None], [], [g, w, g], [w, None]]
        for path in ("cfg", "set"):
            for l in lists:
                out.append({"defs": [{"name": "a", "ty": ty, "multiple": True, "default": None}, {"name": "b", "ty": "int", "multiple": False, "default": {"i": 1}}],
                            "srcs": [{path: [["a", {"l": l}]]}]})
            for v in (g, w, None, {"l": [g]}):
                out.append({"defs": [{"name": "a", "ty": ty, "multiple": False, "default": None}], "srcs": [{path: [["a", v]]}]})
        out.append({"defs": [{"name": "a", "ty": ty, "multiple": False, "default": None}], "srcs": [{"set": [["zz", g]]}]})
    return out


TD_REPEATS = ["90s 30s", "1m 30min", "30sec 90", "1h -15m 5minutes", "1h 30m 30m", "5 -3", "10s -10s 10s", "1d 1days 1d", "2w 1weeks",
              "100ms 900milliseconds", "1us 1microseconds 1us", "1hours 1h", "7 -7seconds 7sec", "-1m -1min -1minutes", "0s 0s", "45s 15", "1h 1m 1s 1h 1m 1s"]


def td_sum_cases(rng, nrand):
    """repeated-unit timedelta texts through the command line, a config-file string and a multiple=True option"""
    out = []
    texts = list(TD_REPEATS) + [gen_td_repeated(rng)[0] for _ in range(nrand)]
    for i, t in enumerate(texts):
        exp = ref_timedelta(t)
        e = {"td": exp} if exp is not None else UNK
        out.append(single("timedelta", t, expect=e))
        c = {"defs": [{"name": "t_o", "ty": "timedelta", "multiple": False, "default": {"td": 5}}, {"name": "b", "ty": "int", "multiple": False, "default": None}],
             "srcs": [{"cfg": [["t_o", {"s": t}]]}]}
        if exp is not None:
            c["expect"] = {"outs": [[]], "vals": [e, None]}
        out.append(c)
        t2 = texts[(i + 1) % len(texts)]
        e2 = ref_timedelta(t2)
        m = {"defs": [{"name": "x", "ty": "timedelta", "multiple": True, "default": None}],
             "srcs": [{"cmd": ["p", "--x=" + t + "," + t2]} if i % 2 == 0 else {"cfg": [["x", {"s": t + "," + t2}]]}]}
        if exp is not None and e2 is not None:
            m["expect"] = {"outs": [[]], "vals": [{"l": [{"td": exp}, {"td": e2}]}]}
        out.append(m)
    return out


def gen_case(rng, focus=None):
    ndefs = rng.choice([1, 1, 2, 3, 4])
    defs, used = [], set()
    dup = rng.random() < 0.04
    for i in range(ndefs):
        name = rng.choice(NAMES)
        if norm(name) in used and not dup:
            continue
        used.add(norm(name))
        ty = focus if (focus and i == 0) else rng.choice(TY_NAMES)
        multiple = rng.random() < 0.3
        default = gen_default(rng, ty, multiple)
        omit = (rng.random() < 0.3) and (ty == "str" or (not multiple and default is not None))
        defs.append({"name": name, "ty": None if omit else ty, "multiple": multiple, "default": default, "_ty": ty})
    names_seen = set()
    has_dup = False
    for d in defs:
        if norm(d["name"]) in names_seen:
            has_dup = True
        names_seen.add(norm(d["name"]))
    nsrc = rng.choice([1, 1, 1, 1, 2, 3, 0])
    srcs = []
    state = {norm(d["name"]): ("default", d["default"] if not (d["default"] is None and d["multiple"]) else {"l": []}) for d in defs}
    known = not has_dup
    outs = []
    failed = False
    for _ in range(nsrc):
        if rng.random() < 0.7:
            args = [rng.choice(["prog", "", "-x", "--"])]
            rem = []
            ended = False
            for d in rng.sample(defs, rng.randrange(0, len(defs) + 1)) + ([None] if rng.random() < 0.12 else []):
                if d is None:   # unknown option
                    a = rng.choice(["--", "-", "---"]) + rng.choice(["zz", "q-q", "a__b", "", "abc", "A", "help-me"]) + rng.choice(["", "=1", "="])
                    args.append("--zz" if a == "--" else a)
                    known_err = "Error"
                    if not failed and not ended:
                        failed = True
                        outs.append("Error")
                    continue
                ty, mult = d["_ty"], d["multiple"]
                nm = d["name"]
                if norm(nm).startswith("-"):
                    known = False   # lstrip("-") makes such a name unreachable from the command line
                if rng.random() < 0.3:
                    nm = "".join(rng.choice("-_") if c in "-_" else c for c in nm)
                prefix = rng.choice(["--", "--", "--", "-", "---"])
                if rng.random() < 0.08:
                    args.append(prefix + nm)
                    if not failed and not ended:
                        if ty == "bool":
                            state[norm(d["name"])] = ("set", {"l": [{"i": 1}]} if mult else {"b": True})
                        else:
                            failed = True
                            outs.append("Error")
                    continue
                t, e = gen_text(rng, ty, mult)
                args.append(prefix + nm + "=" + t)
                if not failed and not ended:
                    if e == UNK:
                        known = False
                    state[norm(d["name"])] = ("set", e)
            r = rng.random()
            if r < 0.2:
                args.append("--")
                rem = [rng.choice(["x", "--a=1", "-", ""]) for _ in range(rng.randrange(0, 3))]
                args += rem
            elif r < 0.4:
                rem = [rng.choice(["x", "pos", "", "=", "a=1"])] + [rng.choice(["--a=1", "y", "--"]) for _ in range(rng.randrange(0, 2))]
                args += rem
            if rng.random() < 0.1:
                rng.shuffle(args)
                known = False
            srcs.append({"cmd": args})
            if not failed:
                outs.append(rem)
        else:
            bs = []
            via_set = rng.random() < 0.4
            for d in rng.sample(defs, rng.randrange(0, len(defs) + 1)):
                ty, mult = d["_ty"], d["multiple"]
                nm = d["name"].replace("-", "_")
                if via_set and rng.random() < 0.5:
                    nm = d["name"]
                if any(b[0] == nm for b in bs):
                    continue
                r = rng.random()
                if via_set and r < 0.45:
                    r = rng.choice([0.6, 0.9])
                if r >= 0.8 and rng.random() < 0.6:    # list mixing well-typed / None / wrong-typed elements
                    bs.append([nm, mixed_list(rng, ty)])
                    known = False
                    continue
                if r < 0.45:
                    t, e = gen_text(rng, ty, mult)
                    bs.append([nm, {"s": t}])
                    if not failed:
                        if e == UNK and not (ty == "str" and not mult):
                            known = False
                        state[norm(d["name"])] = ("set", e if not (ty == "str" and not mult) else {"s": t})
                elif r < 0.8:
                    v = gen_default(rng, ty, mult)
                    bs.append([nm, v])
                    if v is None and mult:
                        known = False
                    if not failed:
                        state[norm(d["name"])] = ("set", v)
                else:   # possibly wrong-typed object
                    v = rng.choice([{"i": 3}, {"b": True}, {"f": [5, -2]}, {"s": "x"}, {"l": [{"i": 1}, None]}, {"l": [{"s": "q"}]}, {"td": 5}, {"dt": [2020, 1, 1, 0, 0, 0]}, {"l": []}, None, {"l": [{"b": False}]}])
                    bs.append([nm, v])
                    known = False
            if rng.random() < (0.1 if via_set else 0.3):
                bs.insert(rng.randrange(len(bs) + 1), [rng.choice(["zz", "unrelated", "q_q"]), rng.choice([{"i": 1}, {"s": "s"}, None])])
                if via_set:
                    known = False
            srcs.append({"set" if via_set else "cfg": bs})
            if not failed:
                outs.append([])
        if failed:
            break
    case = {"defs": [{k: v for k, v in d.items() if k != "_ty"} for d in defs], "srcs": srcs}
    if known and not has_dup:
        case["expect"] = {"outs": outs, "vals": [state[norm(d["name"])][1] for d in defs]}
    return case


def single(ty, text, multiple=False, default=None, expect=UNK):
    c = {"defs": [{"name": "x", "ty": ty, "multiple": multiple, "default": default}], "srcs": [{"cmd": ["p", "--x=" + text]}]}
    if expect != UNK:
        c["expect"] = {"outs": [[]], "vals": [expect]}
    return c


def corpus_cases():
    cs = [
        # witnesses of the defect fixed by f6563c3: non-boolean text was parsed as True / 'no' as True
        single("bool", "banana"), single("bool", "no", expect={"b": False}), single("bool", "off", expect={"b": False}),
        single("bool", "false", expect={"b": False}), single("bool", "TRUE", expect={"b": True}), single("bool", ""),
        single("int", "1:3,5,7:6,2:", True, expect={"l": [{"i": 1}, {"i": 2}, {"i": 3}, {"i": 5}, {"i": 2}]}),
        single("bool", "true,false,1", True, expect={"l": [{"i": 1}, {"i": 0}, {"i": 1}]}),
        single("timedelta", ""), single("timedelta", "  "), single("timedelta", "1e999"), single("timedelta", "1e300"),
        single("timedelta", "999999999d"), single("timedelta", "1000000000d"), single("timedelta", "999999999d 1d"),
        single("timedelta", "0.5us"), single("timedelta", "1.5us"), single("timedelta", "2.5us"), single("timedelta", "-1.5us"),
        single("timedelta", "0.1s"), single("timedelta", "1h 30m", expect={"td": 5400 * 10 ** 6}), single("timedelta", "1 2"),
        single("datetime", "2024110"), single("datetime", "2024111"), single("datetime", "00:00:60"), single("datetime", "2023-02-29"),
        single("datetime", "mon JAN  2 3:4:5 2024"), single("datetime", "2024-01-02t03:04"), single("datetime", "2024-01- 2"),
        single("int", "\x1c1"), single("int", "\xa01\x85", expect={"i": 1}), single("float", "1_0.0_1e1_0"),
        {"defs": [{"name": "a_b", "ty": "int", "multiple": True, "default": None}], "srcs": [{"cmd": ["p", "--a-b=1,2,x"]}]},
        {"defs": [{"name": "a", "ty": "int", "multiple": False, "default": {"i": 5}}, {"name": "b", "ty": None, "multiple": False, "default": {"s": "k"}}],
         "srcs": [{"cmd": ["p", "--zz=1"]}]},
        {"defs": [{"name": "a", "ty": "int", "multiple": False, "default": {"i": 5}}], "srcs": [{"cmd": ["p", "--a"]}]},
        {"defs": [{"name": "a", "ty": "int", "multiple": False, "default": None}], "srcs": [{"cfg": [["a", {"b": True}]]}]},
        {"defs": [{"name": "a", "ty": "float", "multiple": False, "default": None}], "srcs": [{"cfg": [["a", {"i": 1}]]}]},
    ]
    return cs


def words(alpha, n):
    out = [""]
    level = [""]
    for _ in range(n):
        level = [w + a for w in level for a in alpha]
        out += level
    return out


def gen_cases(rng, tier):
    out = []
    n = 700 if tier == "quick" else 9000
    for c in range(256):   # character classes < 256: strip sets, \\s, \\w, \\d, lower()
        ch = chr(c)
        out.append(single("int", ch + "1" + ch))
        out.append(single("timedelta", "1" + ch))
        if tier != "quick" or c % 4 == 0 or c < 48 or 0x80 <= c <= 0xa0:
            out.append(single("timedelta", ch + "1h"))
            out.append(single("bool", "o" + ch))
            out.append(single("float", ch + "1"))
            out.append(single("datetime", "2024-01-02" + ch + "03:04"))
    for i in range(n):
        out.append(gen_case(rng, focus=TY_NAMES[i % 6] if i % 2 == 0 else None))
    out += typed_cases()
    out += td_sum_cases(rng, 12 if tier == "quick" else 200)
    # every bool spelling in every capitalisation
    for w, b in BOOL_WORDS.items():
        for mask in range(2 ** len(w)):
            t = "".join(c.upper() if mask >> i & 1 else c for i, c in enumerate(w))
            out.append(single("bool", t, expect={"b": b}))
    # every datetime format, canonical text
    for k in range(NFORMATS):
        for _ in range(6 if tier == "quick" else 60):
            f = dt_fields(rng)
            out.append(single("datetime", print_dt(rng, k, f, False), expect=dt_expected(k, f)))
    for u, fac in UNITS.items():
        for nn in (0, 1, 90, -3):
            out.append(single("timedelta", "%d%s" % (nn, u), expect={"td": nn * fac}))
    if tier != "quick":   # small scopes, exhaustive
        for w in words("01_+- ", 4):
            out.append(single("int", w))
        for w in words("1.e-_", 4):
            out.append(single("float", w))
        for w in words("1.ehs -", 4):
            out.append(single("timedelta", w))
        for w in words("12:- ", 5):
            out.append(single("datetime", w))
        for w in words("tfyno01T ", 2):
            out.append(single("bool", w))
        for w in words("1:,-", 4):
            out.append(single("int", w, True))
    return out


# ----------------------------------------------------------------------------
def _outcome(o):
    try:
        outs = o[0]
        if isinstance(outs, G.Tag):
            return str(outs)
        last = outs[-1] if outs else None
        return str(last) if isinstance(last, G.Tag) else "ok"
    except Exception:
        return "?"


def _skey(s):
    return "cmd" if "cmd" in s else "cfg" if "cfg" in s else "set"


def _items(s):
    return s[_skey(s)]


def nontrivial(case, o):
    if not case["srcs"] or all(len(_items(s)) <= (1 if "cmd" in s else 0) for s in case["srcs"]):
        return None
    return json.dumps(case, sort_keys=True)


def classify(case, o):
    yield "outcome=" + _outcome(o)
    for d in case["defs"]:
        yield "type=" + str(d["ty"]) + ("*" if d["multiple"] else "")
    for s in case["srcs"]:
        yield "source=" + _skey(s)
        if "cmd" not in s and any(isinstance(v, dict) and "l" in v and len({json.dumps(x, sort_keys=True)[:4] for x in v["l"]}) > 1 for _, v in _items(s)):
            yield "mixed-list-object"
    yield "expect=" + ("known" if case.get("expect") else "unknown")


def signature(case, o):
    tys = sorted({str(d["ty"]) for d in case["defs"]})
    return "%s:%s" % (_outcome(o), ",".join(tys))


def shrink(case):
    base = {k: v for k, v in case.items() if k != "expect"}
    for i in range(len(case["srcs"])):
        yield dict(base, srcs=case["srcs"][:i] + case["srcs"][i + 1:])
    for i in range(len(case["defs"])):
        yield dict(base, defs=case["defs"][:i] + case["defs"][i + 1:])
    for i, s in enumerate(case["srcs"]):
        key = _skey(s)
        items = s[key]
        for j in range(len(items)):
            yield dict(base, srcs=case["srcs"][:i] + [{key: items[:j] + items[j + 1:]}] + case["srcs"][i + 1:])
        if key != "cmd":
            for j, (n, v) in enumerate(items):
                if isinstance(v, dict) and "l" in v and len(v["l"]) > 1:
                    for q in range(len(v["l"])):
                        yield dict(base, srcs=case["srcs"][:i] + [{key: items[:j] + [[n, {"l": v["l"][:q] + v["l"][q + 1:]}]] + items[j + 1:]}] + case["srcs"][i + 1:])
        if key == "cmd":
            for j, a in enumerate(items):
                if len(a) > 4:
                    for cut in (a[:-1], a[: len(a) // 2 + 2]):
                        yield dict(base, srcs=case["srcs"][:i] + [{key: items[:j] + [cut] + items[j + 1:]}] + case["srcs"][i + 1:])


TRUSTED_BASE = [
    "translators/c44_src.py (strict ast reader of tornado/options.py: _parse_bool tables, _TIMEDELTA_ABBREV_DICT, _DATETIME_FORMATS -> regex items as CPython _strptime builds them, "
    "regex pattern strings and the unparsed source of the twelve modelled methods; fails closed); Gen/C44_equiv.v proves them equal to the model's tables / the transcribed sources",
    "harness/props/c44.py run_impl: options are defined on a fresh OptionParser and read back with _Option.value(); the built-in `help` option is skipped",
    "config files are modelled as the ordered namespace of `name = literal` assignments (the exec of arbitrary Python is not modelled)",
    "CPython 3.12 int()/float()/re/_strptime/_datetime (C) are modelled for code points < 256; their behaviour is tied to the model by the correspondence only",
]
ASSUMPTIONS = [
    "text code points < 256 are modelled exactly; for larger code points the model treats every character as a non-digit, non-space, non-word character "
    "(Unicode decimal digits / spaces / letters outside Latin-1 are outside the model; the generator uses U+2192 and U+20AC there, which are neither)",
    "int() digit-count limit (4300 digits) is not modelled",
    "the sign of a float zero is not observed",
]
RULE = ("random parsers (1-4 generated option definitions of every type, single and multiple, with and without defaults / explicit type) driven by 0-3 "
        "command lines / config files whose values are printed from generated values in canonical and alternative textual forms, plus mutated / junk "
        "text, unknown options, missing values, wrong-typed config objects; every bool spelling in every capitalisation; every character < 256 in the "
        "class-sensitive positions; thorough adds exhaustive short strings over small alphabets per type; distinct by canonical JSON of the case")
LEVEL_TEXT = ("Machine-checked (Coq) model of tornado.options value parsing (int/float/bool/str/datetime/timedelta, multiple values and integer ranges), "
              "define / parse_command_line / parse_config_file, with proved round-trip, default-preservation and rejection theorems; the model is compared "
              "with the implementation on generated definitions and values.")
LEVEL_NOTE = ("Trusted: Coq kernel/vm_compute; the correspondence harness; CPython builtins (int, float, re, strptime, timedelta) are modelled, not verified.")
TECHNIQUE = "Coq proofs (induction, finite sweeps) + differential correspondence via vm_compute"
