"""The pipeline shared by every property check (DESIGN.md section 2.1).

  proof stage   : (re)build the property's Coq files from /verif/coq (and any
                  model regenerated from /repo by a translator), re-check
                  Property.v and read its Print Assumptions output
  tie stage     : run the implementation (imported from /repo's working tree)
                  and the Gallina model (vm_compute inside coqc) on the same
                  cases, compare observables, apply the property checker to
                  the implementation's observables
  search stage  : on any broken obligation / disagreement, shrink and look for
                  an input on which the *implementation* fails the property
  known findings, evidence, replay
"""
import fcntl
import hashlib
import importlib
import json
import os
import random
import re
import shutil
import subprocess
import sys
import time
import traceback
from concurrent.futures import ThreadPoolExecutor

ROOT = os.path.dirname(os.path.dirname(os.path.abspath(__file__)))
COQ = os.path.join(ROOT, "coq")
SCRATCH = os.path.join(ROOT, ".scratch")
REPO = os.environ.get("VERIF_REPO", "/repo")

from . import gallina as G  # noqa: E402

FORBIDDEN = re.compile(
    r"\b(Admitted|admit|Axiom|Axioms|Parameter|Parameters|Conjecture|Conjectures|"
    r"Admit Obligations|Unset Guard Checking|Unset Positivity Checking|"
    r"Unset Universe Checking|bypass_check|type-in-type|impredicative-set)\b")
OBLIGATION = re.compile(r"^\s*(?:Local |Global |#\[[^\]]*\]\s*)?(Theorem|Lemma|Corollary|Example|Fact|Remark|Proposition)\s+([A-Za-z_][\w']*)", re.M)

BASE_TRUSTED = [
    "Coq 8.16.1 kernel and coqc; vm_compute (case evaluation, finite sweeps); no native_compute",
    "correspondence harness (generator, canonicaliser, runner) in /verif/harness: a bug there can hide a disagreement, it cannot make a theorem true",
    "the hand-written Gallina model is tied to /repo only by the correspondence (and translator, where named) run on this invocation",
]


def sh(cmd, timeout, cwd=None, env=None):
    try:
        p = subprocess.run(cmd, cwd=cwd, env=env, stdout=subprocess.PIPE,
                           stderr=subprocess.STDOUT, timeout=timeout, text=True,
                           errors="replace")
        return p.returncode, p.stdout
    except subprocess.TimeoutExpired as e:
        out = e.stdout or ""
        if isinstance(out, bytes):
            out = out.decode("utf-8", "replace")
        return 124, out + "\n[timeout after %ss]" % timeout


class Lock:
    def __enter__(self):
        os.makedirs(SCRATCH, exist_ok=True)
        self.f = open(os.path.join(SCRATCH, "coq.lock"), "w")
        fcntl.flock(self.f, fcntl.LOCK_EX)
        return self

    def __exit__(self, *a):
        fcntl.flock(self.f, fcntl.LOCK_UN)
        self.f.close()


def coq_sources():
    out = []
    for d in sorted(os.listdir(COQ)):
        p = os.path.join(COQ, d)
        if os.path.isdir(p) and not d.startswith((".", "_")):
            for f in sorted(os.listdir(p)):
                if f.endswith(".v") and not f.startswith("."):
                    out.append(d + "/" + f)
    return out


def refresh_makefile():
    """_CoqProject is the glob of coq/*/*.v; Makefile regenerated when it changes."""
    want = "-Q . TV\n-arg -w -arg -notation-overridden,-deprecated-hint-without-locality,-deprecated-instance-without-locality\n" + "\n".join(coq_sources()) + "\n"
    cp = os.path.join(COQ, "_CoqProject")
    have = open(cp).read() if os.path.exists(cp) else None
    if have != want or not os.path.exists(os.path.join(COQ, "Makefile")):
        open(cp, "w").write(want)
        rc, out = sh(["coq_makefile", "-f", "_CoqProject", "-o", "Makefile"], 120, cwd=COQ)
        if rc != 0:
            raise RuntimeError("coq_makefile failed: " + out)


def build(targets, timeout=1500, jobs=8):
    """make the given .vo targets (full .vo build).  Returns (ok, log)."""
    with Lock():
        refresh_makefile()
        rc, out = sh(["make", "-j%d" % jobs] + targets, timeout, cwd=COQ)
        if rc != 0 and ("No rule to make target" in out or "No such file or directory" in out):
            # the file set changed under us (stale dependency file): regenerate and retry once
            for f in ("_CoqProject", ".Makefile.d"):
                try:
                    os.remove(os.path.join(COQ, f))
                except OSError:
                    pass
            refresh_makefile()
            rc, out = sh(["make", "-j%d" % jobs] + targets, timeout, cwd=COQ)
    return rc == 0, out


def closure_files(prop_files):
    """The property's own files plus every TV file they depend on (via coqdep)."""
    rc, out = sh(["coqdep", "-Q", ".", "TV"] + coq_sources(), 120, cwd=COQ)
    deps = {}
    for line in out.splitlines():
        if ":" not in line:
            continue
        lhs, rhs = line.split(":", 1)
        tgt = [t for t in lhs.split() if t.endswith(".vo")]
        if not tgt:
            continue
        src = tgt[0][:-1]
        deps[src] = [d[:-1] for d in rhs.split() if d.endswith(".vo")]
    seen, todo = [], list(prop_files)
    while todo:
        f = todo.pop()
        if f in seen:
            continue
        seen.append(f)
        todo.extend(deps.get(f, []))
    return sorted(seen)


class Result:
    def __init__(self):
        self.proof_ok = True
        self.proof_problems = []
        self.obligations = 0
        self.discharged = 0
        self.axioms = []
        self.theorems = []


_protected = {}


def _generated_files():
    import glob
    return sorted(glob.glob(os.path.join(COQ, "Gen", "*_src.v")) + glob.glob(os.path.join(COQ, "*", "SrcGen.v")))


def _protect_generated():
    """A run against another checkout (VERIF_REPO, mutation testing) regenerates the translator
    outputs from THAT tree; put back what was there when the process ends, so that the files in
    /verif always describe /repo (they are regenerated again by every run anyway)."""
    if os.path.realpath(REPO) == "/repo" or _protected:
        return
    import atexit
    for f in _generated_files():
        try:
            _protected[f] = open(f, "rb").read()
        except OSError:
            pass
    _protected[""] = b""

    def restore():
        for f, data in _protected.items():
            if not f:
                continue
            try:
                if open(f, "rb").read() != data:
                    open(f, "wb").write(data)
            except OSError:
                pass
        for f in _generated_files():
            if f not in _protected:
                try:
                    os.remove(f)
                except OSError:
                    pass
    atexit.register(restore)


def own_files(mod):
    """Coq sources a property builds: its COQ_DIRS, except that from the shared directory of
    generated files (Gen/) only its own Gen/<ID>_*.v count (what those import is found by make),
    so that another property's half-regenerated translator output cannot break this check."""
    out = []
    for f in coq_sources():
        d, base = f.split("/")[0], f.split("/")[-1]
        if d not in mod.COQ_DIRS:
            continue
        if d == "Gen" and not base.startswith(mod.ID + "_") and not any(
                base.startswith(x + "_") for x in getattr(mod, "GEN_PREFIXES", [])):
            continue
        out.append(f)
    return out


def proof_stage(mod, res, tier):
    files = own_files(mod)
    if not files:
        res.proof_ok = False
        res.proof_problems.append("no Coq files for " + mod.ID)
        return
    pre = getattr(mod, "pre_build", None)
    if pre:
        _protect_generated()
        try:
            pre()
        except Exception as e:  # translator failed closed
            res.proof_ok = False
            res.proof_problems.append("translator failed closed: %r" % (e,))
            files = own_files(mod)
    ok, log = build([f + "o" for f in files])
    allfiles = closure_files(files)
    names = []
    for f in allfiles:
        txt = open(os.path.join(COQ, f)).read()
        stripped = re.sub(r"\(\*.*?\*\)", "", txt, flags=re.S)
        m = FORBIDDEN.search(stripped)
        if m:
            res.proof_ok = False
            res.proof_problems.append("forbidden vernacular %r in %s" % (m.group(0), f))
        names += [(f, n) for _, n in OBLIGATION.findall(stripped)]
    res.obligations = len(names)
    if not ok:
        res.proof_ok = False
        tail = "\n".join(log.splitlines()[-25:])
        res.proof_problems.append("Coq build failed:\n" + tail)
        # count what did compile
        res.discharged = sum(1 for f, _ in names if os.path.exists(os.path.join(COQ, f + "o"))
                             and os.path.getmtime(os.path.join(COQ, f + "o")) >= os.path.getmtime(os.path.join(COQ, f)))
        return
    res.discharged = len(names)
    # re-check Property.v and capture Print Assumptions
    os.makedirs(SCRATCH, exist_ok=True)
    pdir = os.path.join(SCRATCH, "%s_prop_%d" % (mod.ID, os.getpid()))
    os.makedirs(pdir, exist_ok=True)
    outvo = os.path.join(pdir, os.path.basename(mod.PROPERTY_FILE) + "o")
    rc, out = sh(["coqc", "-Q", COQ, "TV", "-o", outvo, os.path.join(COQ, mod.PROPERTY_FILE)], 600)
    shutil.rmtree(pdir, ignore_errors=True)
    if rc != 0:
        res.proof_ok = False
        res.proof_problems.append("Property.v does not check:\n" + out[-2000:])
        return
    ptxt = re.sub(r"\(\*.*?\*\)", "", open(os.path.join(COQ, mod.PROPERTY_FILE)).read(), flags=re.S)
    res.theorems = [n for _, n in OBLIGATION.findall(ptxt)]
    n_print = len(re.findall(r"Print Assumptions", ptxt))
    closed = out.count("Closed under the global context")
    axioms = []
    for blk in re.findall(r"Axioms:\n((?:.+\n?)+?)(?=\n\S|\Z)", out):
        for line in blk.splitlines():
            m = re.match(r"^([A-Za-z_][\w.']*)\s*(?::|$)", line)   # a long type is printed on the following, indented lines
            if m:
                axioms.append(m.group(1))
    res.axioms = sorted(set(axioms))
    allowed = set(getattr(mod, "ALLOWED_AXIOMS", []))
    bad = [a for a in res.axioms if a not in allowed]
    if bad:
        res.proof_ok = False
        res.proof_problems.append("Print Assumptions reports axioms outside the declared base: %s" % bad)
    if n_print == 0 or (closed == 0 and not res.axioms):
        res.proof_ok = False
        res.proof_problems.append("Property.v printed no assumptions report")
    if tier == "thorough" and getattr(mod, "COQCHK", True):
        lib = "TV." + mod.PROPERTY_FILE[:-2].replace("/", ".")
        rc, out = sh(["coqchk", "-silent", "-o", "-Q", COQ, "TV", lib], 1500)
        res.coqchk = "ok" if rc == 0 else "failed"
        if rc != 0:
            res.proof_ok = False
            res.proof_problems.append("coqchk failed:\n" + out[-1500:])


_NATLIST = re.compile(r"=\s*(\[[^\]]*\]|nil)\s*:\s*list nat", re.S)


def coq_eval(mod, cases_obs, tag="t", want_outputs=False, shard=300, timeout=2400):
    """cases_obs: list of (case, impl_obs).  Returns (mismatch_idx, failure_idx, err, outputs)."""
    if not cases_obs:
        return [], [], None, {}
    d = os.path.join(SCRATCH, "%s_%s_%d" % (mod.ID, tag, os.getpid()))
    shutil.rmtree(d, ignore_errors=True)
    os.makedirs(d)
    shards = [cases_obs[i:i + shard] for i in range(0, len(cases_obs), shard)]
    chk = getattr(mod, "CHECK_FN", None)
    for k, sh_cases in enumerate(shards):
        lines = ["From Coq Require Import List ZArith NArith String Bool.", "Import ListNotations.",
                 "From TV Require Import Lib.Obs.", mod.RUN_IMPORTS, "Local Open Scope list_scope.",
                 "Definition cases : list (%s * obs) := [" % mod.INPUT_TYPE]
        body = []
        for case, o in sh_cases:
            body.append("  (%s,\n   %s)" % (mod.coq_input(case), G.gobs(o)))
        lines.append(";\n".join(body))
        lines.append("].")
        lines.append("Eval vm_compute in (mismatches %s cases)." % mod.RUN_FN)
        if chk:
            lines.append("Eval vm_compute in (failures %s cases)." % chk)
        if want_outputs:
            lines.append("Eval vm_compute in (map (fun c => %s (fst c)) cases)." % mod.RUN_FN)
        open(os.path.join(d, "cases_%d.v" % k), "w").write("\n".join(lines) + "\n")

    def run(k):
        return sh(["coqc", "-Q", COQ, "TV", "-Q", d, "Cases", os.path.join(d, "cases_%d.v" % k)], timeout)

    with ThreadPoolExecutor(max_workers=min(12, len(shards))) as ex:
        results = list(ex.map(run, range(len(shards))))
    mism, fails, outputs, err = [], [], {}, None
    for k, (rc, out) in enumerate(results):
        if rc != 0:
            err = "coqc failed on case shard %d: %s" % (k, out[-1500:])
            continue
        lists = _NATLIST.findall(out)
        need = 2 if chk else 1
        if len(lists) < need:
            err = "could not parse coqc output for shard %d: %s" % (k, out[:500])
            continue
        base = k * shard
        mism += [base + int(x) for x in re.findall(r"\d+", lists[0])]
        if chk:
            fails += [base + int(x) for x in re.findall(r"\d+", lists[1])]
        if want_outputs:
            outputs[k] = out
    if not os.environ.get("VERIF_KEEP_SCRATCH"):
        shutil.rmtree(d, ignore_errors=True)
    return mism, fails, err, outputs


def run_impl_safe(mod, case):
    try:
        return mod.run_impl(case)
    except BaseException as e:  # the harness maps anything unexpected to a tag
        if isinstance(e, (KeyboardInterrupt, SystemExit)) and not getattr(mod, "CATCH_EXIT", False):
            raise
        return [G.Tag("HarnessException"), type(e).__name__]


def load_known():
    p = os.path.join(ROOT, "known_findings.json")
    if not os.path.exists(p):
        return []
    return json.load(open(p)).get("findings", [])


def shrink_case(mod, case, bad_set, budget_s=None, max_cands=48):
    """Greedy shrinking; every round evaluates all candidates of the current case in ONE
    coqc batch (bad_set(cands) -> set of indices that are still bad) under a wall-clock budget."""
    shr = getattr(mod, "shrink", None)
    if not shr:
        return case
    if budget_s is None:
        budget_s = float(os.environ.get("VERIF_SHRINK_BUDGET_S", "75"))
    t_end = time.time() + budget_s
    cur = case
    while time.time() < t_end:
        try:
            cands = []
            for c in shr(cur):
                cands.append(c)
                if len(cands) >= max_cands:
                    break
        except Exception:
            break
        if not cands:
            break
        bad = bad_set(cands)
        if not bad:
            break
        cur = cands[min(bad)]
    return cur


def write_replay(mod, kind, payload):
    os.makedirs(os.path.join(ROOT, "replays"), exist_ok=True)
    blob = json.dumps(payload, sort_keys=True, default=str)
    h = hashlib.sha1(blob.encode()).hexdigest()[:10]
    p = os.path.join(ROOT, "replays", "%s-%s-%s.json" % (mod.ID, kind, h))
    open(p, "w").write(json.dumps(payload, indent=1, sort_keys=True, default=str))
    return p


def main(prop_id, tier="quick", replay=None):
    t0 = time.time()
    os.makedirs(SCRATCH, exist_ok=True)
    seed = int(os.environ.get("VERIF_SEED", "0") or 0)
    tier = os.environ.get("VERIF_TIER") or tier
    if tier not in ("quick", "thorough"):
        tier = "quick"
    sys.path.insert(0, REPO)
    mod = importlib.import_module("harness.props." + prop_id.lower())
    if replay:
        return do_replay(mod, replay)
    res = Result()
    proof_stage(mod, res, tier)

    rng = random.Random("%s-%d" % (prop_id, seed))
    corpus = list(getattr(mod, "corpus_cases", lambda: [])())
    cases = corpus + list(mod.gen_cases(rng, tier))
    t_impl = time.time()
    pairs = []
    for c in cases:
        pairs.append((c, run_impl_safe(mod, c)))
    t_impl = time.time() - t_impl
    py_check = getattr(mod, "py_check", None)
    py_fail = []
    if py_check:
        for i, (c, o) in enumerate(pairs):
            try:
                okc = py_check(c, o)
            except Exception:
                okc = False
            if not okc:
                py_fail.append(i)

    violations = []      # (kind, case, obs, detail)
    known_hits = []
    tie_err = None
    mism, fails = [], []
    if res.proof_ok or os.path.exists(os.path.join(COQ, mod.PROPERTY_FILE[:-len("Property.v")] + "Run.vo")) or True:
        t_coq = time.time()
        sel = getattr(mod, "coq_select", None)
        idx = [i for i, (c, o) in enumerate(pairs) if (sel is None or sel(i, c))]
        m0, f0, tie_err, _ = coq_eval(mod, [pairs[i] for i in idx])
        mism = [idx[j] for j in m0]
        fails = [idx[j] for j in f0]
        n_coq = len(idx)
        t_coq = time.time() - t_coq
    fails = sorted(set(fails) | set(py_fail))
    if os.environ.get("VERIF_DEBUG"):
        for i in mism[:12]:
            print("DEBUG mismatch", json.dumps(G.jsonable(pairs[i][0]), default=str)[:300], "->", json.dumps(G.jsonable(pairs[i][1]), default=str)[:200])
        for i in fails[:12]:
            print("DEBUG checkfail", json.dumps(G.jsonable(pairs[i][0]), default=str)[:300], "->", json.dumps(G.jsonable(pairs[i][1]), default=str)[:200])
        if os.environ.get("VERIF_DEBUG") == "stop":
            return 3

    known = [k for k in load_known() if k.get("property") == mod.ID and k.get("status") == "open"]
    sigf = getattr(mod, "signature", None)

    def known_for(case, o):
        if not sigf:
            return None
        try:
            s = sigf(case, o)
        except Exception:
            return None
        for k in known:
            if k.get("signature") == s:
                return k
        return None

    def case_is_bad(kind):
        def f(cands):
            ps = [(c, run_impl_safe(mod, c)) for c in cands]
            m2, f2, e2, _ = coq_eval(mod, ps, tag="shrink")
            if e2:
                return set()
            pf = set()
            if py_check:
                for j, (c, o) in enumerate(ps):
                    try:
                        if not py_check(c, o):
                            pf.add(j)
                    except Exception:
                        pf.add(j)
            if kind == "fail":
                return set(f2) | pf
            return set(m2)
        return f

    reported_sigs = set()
    # property failures on the implementation's own output: the strongest signal
    for i in fails[:40]:
        c, o = pairs[i]
        k = known_for(c, o)
        if k:
            known_hits.append((k, c))
            continue
        if len(violations) >= 3:
            continue
        c2 = shrink_case(mod, c, case_is_bad("fail"))
        o2 = run_impl_safe(mod, c2)
        k = known_for(c2, o2)
        if k:
            known_hits.append((k, c2))
            continue
        violations.append(("property-fails-on-implementation", c2, o2, "checker %s rejects the implementation's observable" % (getattr(mod, "CHECK_FN", None) or "py_check")))
    unexplained = [i for i in mism if i not in fails]
    if unexplained and not violations:
        # correspondence broken; search the neighbourhood for a property-failing input
        found = None
        extra = []
        nb = getattr(mod, "neighbours", None)
        r2 = random.Random("%s-search-%d" % (prop_id, seed))
        for i in unexplained[:5]:
            if nb:
                extra += list(nb(pairs[i][0], r2))[:200]
        extra += list(mod.gen_cases(r2, "search" if getattr(mod, "HAS_SEARCH_TIER", False) else tier))[:2000]
        epairs = [(c, run_impl_safe(mod, c)) for c in extra]
        m3, f3, e3, _ = coq_eval(mod, epairs, tag="search")
        pf3 = []
        if py_check:
            for j, (c, o) in enumerate(epairs):
                try:
                    if not py_check(c, o):
                        pf3.append(j)
                except Exception:
                    pf3.append(j)
        f3 = sorted(set(f3) | set(pf3))
        for j in f3:
            c, o = epairs[j]
            if known_for(c, o):
                continue
            c2 = shrink_case(mod, c, case_is_bad("fail"))
            found = (c2, run_impl_safe(mod, c2))
            break
        if found:
            violations.append(("property-fails-on-implementation", found[0], found[1], "found by search after the model/implementation correspondence broke"))
        else:
            i = unexplained[0]
            c2 = shrink_case(mod, pairs[i][0], case_is_bad("mismatch"))
            o2 = run_impl_safe(mod, c2)
            _, _, _, outs = coq_eval(mod, [(c2, o2)], tag="show", want_outputs=True)
            violations.append(("correspondence-broken", c2, o2,
                               "model %s.%s and implementation disagree on %d/%d cases; no property-failing input found. model output: %s"
                               % (mod.ID, mod.RUN_FN, len(unexplained), len(pairs), " ".join((outs.get(0) or "").split())[-1500:])))
    if tie_err and not violations:
        violations.append(("correspondence-not-evaluable", None, None, tie_err))
    if not res.proof_ok and not violations:
        violations.append(("proof-obligation-broken", None, None, "; ".join(res.proof_problems)))

    # evidence
    nontriv = getattr(mod, "nontrivial", None)
    keys = set()
    hist = {}
    for c, o in pairs:
        try:
            k = nontriv(c, o) if nontriv else json.dumps(G.jsonable(c), sort_keys=True, default=str)
        except Exception:
            k = None
        if k is not None:
            keys.add(k if isinstance(k, str) else json.dumps(k, sort_keys=True, default=str))
        cl = getattr(mod, "classify", None)
        if cl:
            try:
                for lab in cl(c, o):
                    hist[lab] = hist.get(lab, 0) + 1
            except Exception:
                pass
    samples = [{"input": G.jsonable(c), "impl_observable": G.jsonable(o)} for c, o in pairs[:2] + pairs[len(corpus):len(corpus) + 3]]
    wall = time.time() - t0
    ev = {
        "property_id": mod.ID, "tier": tier, "seed": seed, "level": "proof",
        "coverage": {
            "obligations": res.obligations, "discharged": res.discharged if res.proof_ok else min(res.discharged, max(res.obligations - 1, 0)),
            "checker_cmd": "make -C /verif/coq %s (coqc 8.16.1, full .vo) && coqc %s  [Print Assumptions]" % (" ".join((d + "/*.vo") if d != "Gen" else ("Gen/%s_*.vo" % mod.ID) for d in mod.COQ_DIRS), mod.PROPERTY_FILE),
            "trusted_base": BASE_TRUSTED + list(getattr(mod, "TRUSTED_BASE", [])),
            "property_theorems": res.theorems,
            "axioms_reported_by_Print_Assumptions": res.axioms or ["Closed under the global context"],
            "proof_problems": res.proof_problems,
            "evaluations": len(pairs),
            "distinct_nontrivial": len(keys),
            "rule": getattr(mod, "RULE", "cases generated by harness/props/%s.py; distinct by canonical JSON of the input" % mod.ID.lower()),
            "samples": samples,
            "traces_validated_against_impl": n_coq - len(mism),
            "cases_evaluated_in_coq": n_coq,
            "correspondence_mismatches": len(mism),
            "property_checker_failures_on_impl": len(fails),
            "input_distribution": hist,
            "corpus_cases": len(corpus),
            "impl_s": round(t_impl, 2),
            "exhaustive": bool(getattr(mod, "EXHAUSTIVE", {}).get(tier, False)) if isinstance(getattr(mod, "EXHAUSTIVE", None), dict) else False,
        },
        "assumptions": list(getattr(mod, "ASSUMPTIONS", [])),
        "wall_s": round(wall, 2),
        "violations": len(violations),
    }
    if hasattr(res, "coqchk"):
        ev["coverage"]["coqchk"] = res.coqchk
    if known_hits:
        ev["coverage"]["known_findings_hit"] = sorted({k["signature"] for k, _ in known_hits})
    # evidence/ only ever describes runs against /repo itself; runs against another checkout
    # (VERIF_REPO=<scratch worktree>, used for seeded-change testing) write to .scratch instead
    evdir = os.path.join(ROOT, "evidence") if os.path.realpath(REPO) == "/repo" else os.path.join(SCRATCH, "evidence_other_repo")
    os.makedirs(evdir, exist_ok=True)
    json.dump(ev, open(os.path.join(evdir, mod.ID + ".json"), "w"), indent=1, default=str)

    seen = set()
    for k, c in known_hits:
        if k["signature"] in seen:
            continue
        seen.add(k["signature"])
        print("KNOWN-FINDING: property=%s %s" % (mod.ID, k.get("what", k["signature"])))
    print("%s tier=%s seed=%d obligations=%d/%d cases=%d mismatches=%d checker_failures=%d wall=%.1fs" % (
        mod.ID, tier, seed, ev["coverage"]["discharged"], res.obligations, len(pairs), len(mism), len(fails), wall))
    if violations:
        for kind, c, o, detail in violations[:1]:
            payload = {"property": mod.ID, "kind": kind, "detail": detail,
                       "case": G.jsonable(c) if c is not None else None,
                       "impl_observable": G.jsonable(o) if o is not None else None,
                       "broken": ("theorems in %s" % mod.PROPERTY_FILE) if kind == "proof-obligation-broken" else
                                 ("correspondence %s.%s vs implementation" % (mod.ID, mod.RUN_FN)),
                       "replay_cmd": "./check %s --replay <this file>" % mod.ID, "seed": seed, "tier": tier}
            p = write_replay(mod, kind, payload)
            suffix = "" if kind == "property-fails-on-implementation" else " no-failing-input-found"
            print("VIOLATION property=%s replay=%s%s" % (mod.ID, p, suffix))
        return 1
    return 0


def do_replay(mod, path):
    payload = json.load(open(path))
    case = payload.get("case")
    if case is None:
        print("replay names a broken obligation, not an input:", payload.get("detail"))
        return 1
    case = getattr(mod, "case_from_json", lambda x: x)(case)
    o = run_impl_safe(mod, case)
    m, f, e, outs = coq_eval(mod, [(case, o)], tag="replay", want_outputs=True)
    print("case:", json.dumps(G.jsonable(case), default=str))
    print("implementation observable:", json.dumps(G.jsonable(o), default=str))
    print("model:", " ".join((outs.get(0) or str(e)).split()))
    print("correspondence:", "DISAGREE" if m else "agree")
    pc = getattr(mod, "py_check", None)
    bad = bool(f) or (pc and not pc(case, o))
    print("property on implementation output:", "FAILS" if bad else "holds")
    return 1 if (m or bad) else 0


def all_props():
    d = os.path.join(ROOT, "harness", "props")
    return sorted(f[:-3].upper() for f in os.listdir(d) if re.fullmatch(r"c\d\d\.py", f))


def setup():
    """MANIFEST.setup_cmd: regenerate translated models from /repo, then a full .vo build."""
    sys.path.insert(0, REPO)
    os.makedirs(SCRATCH, exist_ok=True)
    for p in all_props():
        mod = importlib.import_module("harness.props." + p.lower())
        pre = getattr(mod, "pre_build", None)
        if pre:
            try:
                pre()
            except Exception as e:
                print("setup: translator for %s failed closed: %r" % (p, e))
    with Lock():
        refresh_makefile()
        rc, out = sh(["make", "-j16", "-k"], 6 * 3600, cwd=COQ)
    print("\n".join(out.splitlines()[-15:]))
    if rc != 0:
        # A file that fails to build is reported by the check of the property it belongs to
        # (proof stage); it must not prevent the other checks from running.
        print("setup: make reported errors (exit %d); affected properties will report them" % rc)
    built = sum(1 for f in coq_sources() if os.path.exists(os.path.join(COQ, f + "o")))
    print("setup: %d of %d Coq files built" % (built, len(coq_sources())))
    return 0 if built > 0 else 1
