"""Rendering of Python values as Gallina terms (text), and of implementation
observables as terms of TV.Lib.Obs.obs.  Pure text emission; nothing clever."""


class Tag(str):
    """A small-enum observable (error kind, state name): rendered as OTag."""


def gz(n):
    return "(%d)%%Z" % n


def gn(n):
    assert n >= 0
    return "%d%%N" % n


def gnat(n):
    assert 0 <= n < 5000, "nat literals must stay small"
    return "%d%%nat" % n


def gbool(b):
    return "true" if b else "false"


def gbytes(b):
    """bytes / str (code points) -> list N"""
    if isinstance(b, str):
        vals = [ord(c) for c in b]
    else:
        vals = list(b)
    if not vals:
        return "(@nil N)"
    return "[" + ";".join(str(v) for v in vals) + "]%N"


def gstring(s):
    """ASCII python str -> Coq string literal"""
    assert all(32 <= ord(c) < 127 for c in s), s
    return '"' + s.replace('"', '""') + '"%string'


def glist(items, ty=None):
    items = list(items)
    if not items:
        return "(@nil %s)" % ty if ty else "[]"
    return "[" + "; ".join(items) + "]"


def goption(x, render, ty=None):
    if x is None:
        return "(@None %s)" % ty if ty else "None"
    return "(Some %s)" % render(x)


def gpair(a, b):
    return "(%s, %s)" % (a, b)


def gobs(v):
    """Python observable -> Gallina term of type obs."""
    if v is None:
        return "ONone"
    if isinstance(v, Tag):
        return "(OTag %s)" % gstring(str(v))
    if isinstance(v, bool):
        return "(OBool %s)" % gbool(v)
    if isinstance(v, int):
        return "(OInt %s)" % gz(v)
    if isinstance(v, (bytes, bytearray, memoryview)):
        return "(OBytes %s)" % gbytes(bytes(v))
    if isinstance(v, str):
        return "(OBytes %s)" % gbytes(v)
    if isinstance(v, (list, tuple)):
        return "(OList %s)" % glist([gobs(x) for x in v], "obs")
    raise TypeError("no obs rendering for %r" % (v,))


def jsonable(v):
    """Observable -> JSON-friendly structure for replays/evidence."""
    if isinstance(v, Tag):
        return {"tag": str(v)}
    if isinstance(v, (bytes, bytearray, memoryview)):
        return {"bytes": bytes(v).decode("latin-1")}
    if isinstance(v, (list, tuple)):
        return [jsonable(x) for x in v]
    if isinstance(v, dict):
        return {str(k): jsonable(x) for k, x in v.items()}
    return v
