"""A virtual-clock asyncio loop: timers fire in deadline order with no real
waiting; `time.time`/`time.monotonic` are patched to the same clock while a
run is in progress (tornado.ioloop.IOLoop.time uses time.time)."""
import asyncio
import selectors
import time as _time


class _VSelector:
    def __init__(self, inner, loop):
        self._inner = inner
        self._loop = loop

    def select(self, timeout=None):
        ev = self._inner.select(0)
        if ev:
            return ev
        if timeout is None:
            # nothing ready, nothing scheduled: the run is stuck
            self._loop.stuck = True
            raise RuntimeError("virtual loop is idle with no timers (deadlock / pending forever)")
        if timeout > 0:
            self._loop.vnow += timeout
        return ev

    def __getattr__(self, name):
        return getattr(self._inner, name)


class VirtualLoop(asyncio.SelectorEventLoop):
    def __init__(self, start=1000000.0):
        self.vnow = float(start)
        self.stuck = False
        super().__init__(selectors.SelectSelector())
        self._selector = _VSelector(self._selector, self)

    def time(self):
        return self.vnow


def run_virtual(coro_fn, start=1000000.0, timeout_virtual=None):
    """Run `await coro_fn(loop)` on a fresh VirtualLoop; returns its result."""
    loop = VirtualLoop(start)
    real_time, real_mono = _time.time, _time.monotonic
    _time.time = lambda: loop.vnow
    _time.monotonic = lambda: loop.vnow
    asyncio.set_event_loop(loop)
    try:
        return loop.run_until_complete(coro_fn(loop))
    finally:
        _time.time, _time.monotonic = real_time, real_mono
        try:
            for t in asyncio.all_tasks(loop):
                t.cancel()
            loop.run_until_complete(asyncio.sleep(0))
        except Exception:
            pass
        asyncio.set_event_loop(None)
        loop.close()


async def settle(n=5):
    """Let ready callbacks run (no virtual time passes)."""
    for _ in range(n):
        await asyncio.sleep(0)
