"""A BaseIOStream over a scripted transport: exact control of short reads,
EWOULDBLOCK, EOF, errors and partial sends, with no sockets and no fd
registration.  Only overridable hooks of BaseIOStream are used."""
import collections
import errno as _errno

from tornado.iostream import BaseIOStream
from tornado.ioloop import IOLoop

EOF = object()


class Err:
    def __init__(self, code=_errno.ECONNRESET):
        self.code = code


class _LoopProxy:
    """Delegates to the real IOLoop except for fd handlers, which are recorded only."""

    def __init__(self, loop):
        self._loop = loop
        self.handlers = {}

    def add_handler(self, fd, handler, events):
        self.handlers[fd] = events

    def update_handler(self, fd, events):
        self.handlers[fd] = events

    def remove_handler(self, fd):
        self.handlers.pop(fd, None)

    def __getattr__(self, name):
        return getattr(self._loop, name)


_next_fd = [100000]


class FakeIOStream(BaseIOStream):
    socket = None

    def __init__(self, *args, **kwargs):
        super().__init__(*args, **kwargs)
        self.io_loop = _LoopProxy(self.io_loop)
        _next_fd[0] += 1
        self._fake_fd = _next_fd[0]
        self.incoming = collections.deque()    # bytes | EOF | Err
        self.sent = bytearray()                # everything the transport accepted
        self.send_script = collections.deque() # int k (accept at most k) | "block" | Err ; empty = accept all
        self.fd_closed = 0
        self.write_calls = []                  # sizes offered to the transport

    # --- hooks required by BaseIOStream ---
    def fileno(self):
        return self._fake_fd

    def close_fd(self):
        self.fd_closed += 1

    def read_from_fd(self, buf):
        if not self.incoming:
            return None
        item = self.incoming[0]
        if item is EOF:
            self.incoming.popleft()
            return 0
        if isinstance(item, Err):
            self.incoming.popleft()
            raise OSError(item.code, "scripted read error")
        n = min(len(buf), len(item))
        buf[:n] = item[:n]
        if n < len(item):
            self.incoming[0] = item[n:]
        else:
            self.incoming.popleft()
        return n

    def write_to_fd(self, data):
        self.write_calls.append(len(data))
        if self.send_script:
            step = self.send_script.popleft()
            if step == "block":
                raise BlockingIOError(_errno.EWOULDBLOCK, "scripted EWOULDBLOCK")
            if isinstance(step, Err):
                raise OSError(step.code, "scripted write error")
            k = min(int(step), len(data))
        else:
            k = len(data)
        self.sent += bytes(data[:k])
        return k

    def get_fd_error(self):
        return None

    def set_nodelay(self, value):
        pass

    # --- driving the stream from the harness ---
    def feed(self, item, notify=True):
        """Make `item` (bytes, EOF or Err) available to read_from_fd; if the stream is
        listening for READ, deliver the readiness event as the IOLoop would."""
        self.incoming.append(item)
        if notify:
            self.notify_read()

    def notify_read(self):
        if not self.closed() and self._state is not None and (self._state & IOLoop.READ):
            self._handle_events(self.fileno(), IOLoop.READ)
            return True
        return False

    def notify_write(self):
        if not self.closed() and self._state is not None and (self._state & IOLoop.WRITE):
            self._handle_events(self.fileno(), IOLoop.WRITE)
            return True
        return False

    def take_sent(self):
        b = bytes(self.sent)
        del self.sent[:]
        return b
