#!/venv/bin/python
"""Fail-closed translator for C16: reads tornado/websocket.py with the `ast` module and emits
coq/Gen/C16_src.v with the small pure decisions of the close handshake:

  src_is_closing           WebSocketProtocol13.is_closing
  src_guard_*              the `raise WebSocketClosedError` guards of WebSocketHandler.write_message / ping
                           and WebSocketClientConnection.write_message / ping
  src_ping_interval        WebSocketProtocol13.ping_interval
  src_ping_timeout         WebSocketProtocol13.ping_timeout (clamping to the interval)
  src_ping_sleep_time      WebSocketProtocol13.ping_sleep_time
  src_ping_timed_out       the test in periodic_ping that leads to close(reason="ping timed out")
  src_close_default_code   the test in close() that turns (no code, a reason) into code 1000

Only the statement / expression shapes handled below are accepted; anything else raises Unsupported
(the check then reports a broken obligation).  Types: "num" (N; Z for the sleep time), "opt" (option N),
"bool"."""
import ast
import os
import sys


class Unsupported(Exception):
    pass


def find_class(tree, cls):
    cs = [n for n in tree.body if isinstance(n, ast.ClassDef) and n.name == cls]
    if len(cs) != 1:
        raise Unsupported("class %s" % cls)
    return cs[0]


def find_method(tree, cls, name, kinds=(ast.FunctionDef,)):
    fs = [n for n in find_class(tree, cls).body if isinstance(n, (ast.FunctionDef, ast.AsyncFunctionDef)) and n.name == name
          and not any(isinstance(d, ast.Attribute) and d.attr == "setter" for d in n.decorator_list)]
    if len(fs) != 1 or not isinstance(fs[0], kinds):
        raise Unsupported("method %s.%s" % (cls, name))
    return fs[0]


def strip_doc(body):
    if body and isinstance(body[0], ast.Expr) and isinstance(body[0].value, ast.Constant) and isinstance(body[0].value.value, str):
        return body[1:]
    return body


def key(e):
    """dotted name of a Name / Attribute chain / zero-argument method call on such a chain"""
    if isinstance(e, ast.Name):
        return e.id
    if isinstance(e, ast.Attribute):
        return key(e.value) + "." + e.attr
    if isinstance(e, ast.Call) and not e.args and not e.keywords:
        return key(e.func) + "()"
    raise Unsupported("not a name: " + ast.dump(e))


class Fn:
    """env: dotted source name -> (gallina variable, type)"""

    def __init__(self, env, zmode=False):
        self.env = dict(env)
        self.z = zmode

    def lookup(self, e):
        k = key(e)
        if k not in self.env:
            raise Unsupported("unknown name " + k)
        return self.env[k]

    def expr(self, e):
        if isinstance(e, ast.Constant) and type(e.value) is int and 0 <= e.value < 100000:
            return ("%d" % e.value), "num"
        if isinstance(e, (ast.Name, ast.Attribute)) or (isinstance(e, ast.Call) and isinstance(e.func, ast.Attribute) and not e.args and not e.keywords):
            return self.lookup(e)
        if isinstance(e, ast.Compare) and len(e.ops) == 1 and len(e.comparators) == 1:
            op, rhs = e.ops[0], e.comparators[0]
            if isinstance(op, (ast.Is, ast.IsNot)):
                if not (isinstance(rhs, ast.Constant) and rhs.value is None):
                    raise Unsupported("is / is not with something other than None")
                v, t = self.expr(e.left)
                if t == "isnone":          # the variable already stands for "x is None"
                    return (v if isinstance(op, ast.Is) else "(negb %s)" % v), "bool"
                if t != "opt":
                    raise Unsupported("None test on a non-optional value")
                return ("(negb (is_some_N %s))" % v if isinstance(op, ast.Is) else "(is_some_N %s)" % v), "bool"
            if isinstance(op, ast.Gt):
                a, ta = self.expr(e.left)
                b, tb = self.expr(rhs)
                if ta != "num" or tb != "num":
                    raise Unsupported("> on non-numbers (a None operand would raise TypeError)")
                return "(%s <? %s)" % (b, a), "bool"
            raise Unsupported("comparison " + type(op).__name__)
        if isinstance(e, ast.BoolOp):
            parts = [self.truth(v) for v in e.values]
            op = " && " if isinstance(e.op, ast.And) else " || "
            return "(" + op.join(parts) + ")", "bool"
        if isinstance(e, ast.UnaryOp) and isinstance(e.op, ast.Not):
            return "(negb %s)" % self.truth(e.operand), "bool"
        if isinstance(e, ast.BinOp) and isinstance(e.op, (ast.Add, ast.Sub)):
            if not self.z:
                raise Unsupported("arithmetic outside ping_sleep_time")
            a, ta = self.expr(e.left)
            b, tb = self.expr(e.right)
            if ta != "num" or tb != "num":
                raise Unsupported("arithmetic on non-numbers")
            return "(%s %s %s)" % (a, "+" if isinstance(e.op, ast.Add) else "-", b), "num"
        if isinstance(e, ast.Call) and isinstance(e.func, ast.Name) and e.func.id == "max" and len(e.args) == 2 and not e.keywords and self.z:
            a, ta = self.expr(e.args[0])
            b, tb = self.expr(e.args[1])
            if ta != "num" or tb != "num":
                raise Unsupported("max on non-numbers")
            return "(Z.max %s %s)" % (a, b), "num"
        raise Unsupported("expression: " + ast.dump(e))

    def truth(self, e):
        """Python truthiness of an operand of and / or / not / if"""
        v, t = self.expr(e)
        if t == "bool":
            return v
        if t == "num":
            return "(negb (%s =? 0))" % v
        raise Unsupported("truthiness of a %s value" % t)

    def block(self, body):
        """statements that end in `return` -> (gallina expression, type)"""
        if not body:
            raise Unsupported("control reaches the end of the function without return")
        s, rest = body[0], body[1:]
        if isinstance(s, ast.Return) and s.value is not None:
            if rest:
                raise Unsupported("code after return")
            return self.expr(s.value)
        if isinstance(s, ast.Assign) and len(s.targets) == 1 and isinstance(s.targets[0], ast.Name):
            v, t = self.expr(s.value)
            self.env[s.targets[0].id] = (v, t)
            return self.block(rest)
        if isinstance(s, ast.Expr) and isinstance(s.value, ast.Call) and isinstance(s.value.func, ast.Name) and s.value.func.id == "de_dupe_gen_log":
            return self.block(rest)          # logging only
        if isinstance(s, ast.If) and not s.orelse:
            # `if x is not None:` narrows x from option to number in the branch
            t = s.test
            if (isinstance(t, ast.Compare) and len(t.ops) == 1 and isinstance(t.ops[0], ast.IsNot) and isinstance(t.comparators[0], ast.Constant)
                    and t.comparators[0].value is None and isinstance(t.left, ast.Name) and self.env.get(t.left.id, (None, None))[1] == "opt"):
                var = self.env[t.left.id][0]
                inner = Fn(self.env, self.z)
                inner.env[t.left.id] = (t.left.id + "_v", "num")
                a, ta = inner.block(list(s.body))
                b, tb = Fn(self.env, self.z).block(rest)
                if ta != tb:
                    raise Unsupported("branches of different types")
                return "(match %s with Some %s_v => %s | None => %s end)" % (var, t.left.id, a, b), ta
            c = self.truth(t)
            a, ta = Fn(self.env, self.z).block(list(s.body))
            b, tb = Fn(self.env, self.z).block(rest)
            if ta != tb:
                raise Unsupported("branches of different types")
            return "(if %s then %s else %s)" % (c, a, b), ta
        raise Unsupported("statement: " + ast.dump(s)[:200])


def no_args_but_self(fn, extra=()):
    a = fn.args
    if [x.arg for x in a.args] != ["self"] + list(extra) or a.vararg or a.kwarg or a.kwonlyargs or a.posonlyargs:
        raise Unsupported("signature of " + fn.name)


def is_property(fn):
    return [ast.unparse(d) for d in fn.decorator_list] == ["property"]


def guard(tree, cls, name, conn):
    """the unique top-level `if <test>: raise WebSocketClosedError(...)` of the method"""
    fn = find_method(tree, cls, name)
    ifs = [s for s in strip_doc(fn.body) if isinstance(s, ast.If)]
    hits = []
    for s in ifs:
        if (len(s.body) == 1 and isinstance(s.body[0], ast.Raise) and s.body[0].exc is not None and not s.orelse
                and "WebSocketClosedError" in ast.unparse(s.body[0].exc)):
            hits.append(s)
    if len(hits) != 1:
        raise Unsupported("%s.%s: expected exactly one WebSocketClosedError guard, found %d" % (cls, name, len(hits)))
    # nothing may be written before the guard
    for s in strip_doc(fn.body):
        if s is hits[0]:
            break
        if not (isinstance(s, ast.Assign) and "write" not in ast.unparse(s)):
            raise Unsupported("%s.%s: statement before the guard: %s" % (cls, name, ast.unparse(s)[:80]))
    env = {"self." + conn: ("conn_is_none", "isnone"), "self.%s.is_closing()" % conn: ("closing", "bool")}
    v, t = Fn(env).expr(hits[0].test)
    if t != "bool":
        raise Unsupported("guard is not boolean")
    return v


def translate(src):
    tree = ast.parse(src)
    out = []
    P = "WebSocketProtocol13"

    fn = find_method(tree, P, "is_closing")
    no_args_but_self(fn)
    v, t = Fn({"self.stream.closed()": ("sc", "bool"), "self.client_terminated": ("ct", "bool"),
               "self.server_terminated": ("st", "bool")}).block(strip_doc(fn.body))
    if t != "bool":
        raise Unsupported("is_closing type")
    out.append("Definition src_is_closing (sc ct st : bool) : bool :=\n  %s." % v)

    for cls, name, conn, g in (("WebSocketHandler", "write_message", "ws_connection", "src_guard_handler_write"),
                               ("WebSocketHandler", "ping", "ws_connection", "src_guard_handler_ping"),
                               ("WebSocketClientConnection", "write_message", "protocol", "src_guard_client_write"),
                               ("WebSocketClientConnection", "ping", "protocol", "src_guard_client_ping")):
        out.append("Definition %s (conn_is_none closing : bool) : bool :=\n  %s." % (g, guard(tree, cls, name, conn)))

    fn = find_method(tree, P, "ping_interval")
    no_args_but_self(fn)
    if not is_property(fn):
        raise Unsupported("ping_interval is not a property")
    v, t = Fn({"self.params.ping_interval": ("p_interval", "opt")}).block(strip_doc(fn.body))
    if t != "num":
        raise Unsupported("ping_interval type")
    out.append("Definition src_ping_interval (p_interval : option N) : N :=\n  %s." % v)

    fn = find_method(tree, P, "ping_timeout")
    no_args_but_self(fn)
    if not is_property(fn):
        raise Unsupported("ping_timeout is not a property")
    v, t = Fn({"self.params.ping_timeout": ("p_timeout", "opt"), "self.ping_interval": ("interval", "num")}).block(strip_doc(fn.body))
    if t != "num":
        raise Unsupported("ping_timeout type")
    out.append("Definition src_ping_timeout (interval : N) (p_timeout : option N) : N :=\n  %s." % v)

    fn = find_method(tree, P, "ping_sleep_time")
    a = fn.args
    if ([ast.unparse(d) for d in fn.decorator_list] != ["staticmethod"] or a.args or a.vararg or a.kwarg or a.posonlyargs
            or [x.arg for x in a.kwonlyargs] != ["last_ping_time", "interval", "now"]):
        raise Unsupported("signature of ping_sleep_time")
    v, t = Fn({"last_ping_time": ("last_ping_time", "num"), "interval": ("interval", "num"), "now": ("now", "num")}, zmode=True).block(strip_doc(fn.body))
    out.append("Definition src_ping_sleep_time (last_ping_time interval now : Z) : Z :=\n  (%s)%%Z." % v.replace("<?", "<?"))

    fn = find_method(tree, P, "periodic_ping", kinds=(ast.AsyncFunctionDef,))
    hits = [n for n in ast.walk(fn) if isinstance(n, ast.If) and any("ping timed out" in ast.unparse(s) for s in n.body)]
    if len(hits) != 1 or hits[0].orelse:
        raise Unsupported("periodic_ping: the ping-timeout test")
    body = [ast.unparse(s) for s in hits[0].body]
    if body != ["self.close(reason='ping timed out')", "return"]:
        raise Unsupported("periodic_ping: body of the ping-timeout branch: %r" % (body,))
    v = Fn({"timeout": ("timeout", "num"), "self._received_pong": ("received_pong", "bool")}).truth(hits[0].test)
    out.append("Definition src_ping_timed_out (timeout : N) (received_pong : bool) : bool :=\n  %s." % v)

    fn = find_method(tree, P, "close")
    hits = [n for n in ast.walk(fn) if isinstance(n, ast.If) and [ast.unparse(s) for s in n.body] == ["code = 1000"]]
    if len(hits) != 1 or hits[0].orelse:
        raise Unsupported("close: the default-code test")
    v = Fn({"code": ("code", "opt"), "reason": ("reason", "opt")}).truth(hits[0].test)
    out.append("Definition src_close_default_code (code reason : option N) : bool :=\n  %s." % v)
    return "\n\n".join(out)


def emit(repo, out_path):
    src = open(os.path.join(repo, "tornado", "websocket.py")).read()
    body = translate(src)
    text = ("(* GENERATED by translators/c16_src.py from tornado/websocket.py — do not edit *)\n"
            "From Coq Require Import NArith ZArith Bool.\nLocal Open Scope N_scope.\n"
            "Definition is_some_N (o : option N) : bool := match o with Some _ => true | None => false end.\n\n"
            + body + "\n")
    old = open(out_path).read() if os.path.exists(out_path) else None
    if old != text:
        open(out_path, "w").write(text)


if __name__ == "__main__":
    repo = sys.argv[1] if len(sys.argv) > 1 else "/repo"
    print(translate(open(os.path.join(repo, "tornado", "websocket.py")).read()))
