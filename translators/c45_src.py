#!/venv/bin/python
"""Fail-closed translator for C45: reads tornado/log.py with the `ast` module and emits coq/Gen/C45_src.v

  src_safe_unicode      -- _safe_unicode, from its try/except
  src_DEFAULT_FORMAT, src_DEFAULT_COLORS, src_ansi_color, src_ANSI_NORMAL
                        -- class constants and the ANSI (colorama) branch of LogFormatter.__init__
  src_format            -- LogFormatter.format, statement by statement

Every statement of the two functions must match one of the shapes below (compared on `ast.unparse`
text, so comments and quoting style do not matter); the parts that vary — the classes of the `except`
clauses, the literal pieces and the order of the f-string, the separators of split / join / replace, the
'' of the no-colour branch — are extracted from the source and put into the output.  Anything else raises
Unsupported: the check then reports a broken obligation.  The statement forms used by the output
(py_try, py_assert, py_fstring, py_split1, py_join, py_replace1, ...) are defined in coq/C45/PyPrims.v."""
import ast
import os
import re
import sys


class Unsupported(Exception):
    pass


EXC = ["BaseException", "Exception", "TypeError", "ValueError", "UnicodeError", "UnicodeDecodeError", "UnicodeEncodeError",
       "LookupError", "KeyError", "IndexError", "ArithmeticError", "OverflowError", "ZeroDivisionError", "AssertionError",
       "AttributeError", "RuntimeError", "RecursionError", "NotImplementedError", "OSError", "MemoryError", "StopIteration",
       "KeyboardInterrupt", "SystemExit", "GeneratorExit"]
LEVELS = {"logging.DEBUG": 10, "logging.INFO": 20, "logging.WARNING": 30, "logging.ERROR": 40, "logging.CRITICAL": 50}


def gtext(s):
    if not isinstance(s, str):
        raise Unsupported("text constant %r" % (s,))
    if not s:
        return "(@nil N)"
    return "[" + ";".join(str(ord(c)) for c in s) + "]%N"


def gchar(s):
    if not isinstance(s, str) or len(s) != 1:
        raise Unsupported("a one-character separator is expected, got %r" % (s,))
    return "%d%%N" % ord(s)


def handlers(node):
    """the class expression of an `except` clause -> Gallina list of exc_class"""
    if node is None:
        raise Unsupported("bare except")
    names = [node] if isinstance(node, ast.Name) else list(node.elts) if isinstance(node, ast.Tuple) else None
    if names is None or not all(isinstance(n, ast.Name) and n.id in EXC for n in names):
        raise Unsupported("except clause classes: " + ast.unparse(node))
    return "[" + "; ".join("E" + n.id for n in names) + "]"


def expect(stmt, text):
    got = ast.unparse(stmt)
    if got != text:
        raise Unsupported("statement shape: expected %r, found %r" % (text, got))


def const_str(node):
    if isinstance(node, ast.Constant) and isinstance(node.value, str):
        return node.value
    raise Unsupported("string constant expected: " + ast.unparse(node))


def find(tree, name, cls=None):
    body = tree.body
    if cls:
        cs = [n for n in body if isinstance(n, ast.ClassDef) and n.name == cls]
        if len(cs) != 1:
            raise Unsupported("class " + cls)
        body = cs[0].body
    fs = [n for n in body if isinstance(n, ast.FunctionDef) and n.name == name]
    if len(fs) != 1:
        raise Unsupported("function " + name)
    return fs[0]


def class_const(tree, cls, name):
    cs = [n for n in tree.body if isinstance(n, ast.ClassDef) and n.name == cls][0]
    for n in cs.body:
        if isinstance(n, ast.Assign) and len(n.targets) == 1 and isinstance(n.targets[0], ast.Name) and n.targets[0].id == name:
            return n.value
    raise Unsupported("%s.%s" % (cls, name))


# ---------------------------------------------------------------- _safe_unicode
def tr_safe_unicode(fn):
    if [a.arg for a in fn.args.args] != ["s"] or len(fn.body) != 1 or not isinstance(fn.body[0], ast.Try):
        raise Unsupported("_safe_unicode shape")
    t = fn.body[0]
    if t.orelse or t.finalbody or len(t.handlers) != 1 or len(t.body) != 1 or len(t.handlers[0].body) != 1:
        raise Unsupported("_safe_unicode try shape")
    expect(t.body[0], "return _unicode(s)")
    expect(t.handlers[0].body[0], "return repr(s)")
    return ("Definition src_safe_unicode (s : pyval) : outcome pyval :=\n"
            "  py_try (to_unicode s) %s (fun _ => omap PStr (py_repr s)).\n" % handlers(t.handlers[0].type))


# ---------------------------------------------------------------- __init__ (ANSI branch) and constants
def tr_init(tree):
    fmt = const_str(class_const(tree, "LogFormatter", "DEFAULT_FORMAT"))
    colors = class_const(tree, "LogFormatter", "DEFAULT_COLORS")
    if not isinstance(colors, ast.Dict):
        raise Unsupported("DEFAULT_COLORS")
    pairs = []
    for k, v in zip(colors.keys, colors.values):
        ks = ast.unparse(k)
        if ks not in LEVELS or not (isinstance(v, ast.Constant) and type(v.value) is int):
            raise Unsupported("DEFAULT_COLORS entry " + ks)
        pairs.append("(%d, %d)" % (LEVELS[ks], v.value))
    init = find(tree, "__init__", "LogFormatter")
    ifs = [s for s in init.body if isinstance(s, ast.If)]
    if len(ifs) != 1 or ast.unparse(ifs[0].test) != "color and _stderr_supports_color()":
        raise Unsupported("__init__: the colour `if`")
    top = ifs[0]
    if len(top.orelse) != 1:
        raise Unsupported("__init__: else branch")
    expect(top.orelse[0], "self._normal = ''")
    if len(top.body) != 1 or not isinstance(top.body[0], ast.If) or ast.unparse(top.body[0].test) != "curses is not None":
        raise Unsupported("__init__: curses test")
    ansi = top.body[0].orelse          # the branch without curses
    if len(ansi) != 2 or not isinstance(ansi[0], ast.For):
        raise Unsupported("__init__: ANSI branch")
    loop = ansi[0]
    if ast.unparse(loop.target) != "(levelno, code)" or ast.unparse(loop.iter) != "colors.items()" or len(loop.body) != 1:
        raise Unsupported("__init__: ANSI loop")
    a = loop.body[0]
    if not (isinstance(a, ast.Assign) and ast.unparse(a.targets[0]) == "self._colors[levelno]" and isinstance(a.value, ast.BinOp)
            and isinstance(a.value.op, ast.Mod) and ast.unparse(a.value.right) == "code"):
        raise Unsupported("__init__: ANSI colour assignment")
    tmpl = const_str(a.value.left)
    m = re.fullmatch(r"([^%]*)%d([^%]*)", tmpl, re.S)
    if not m:
        raise Unsupported("ANSI colour template %r" % tmpl)
    n = ansi[1]
    if not (isinstance(n, ast.Assign) and ast.unparse(n.targets[0]) == "self._normal"):
        raise Unsupported("__init__: ANSI normal")
    normal = const_str(n.value)
    if not all(32 <= ord(c) < 127 and c != '"' for c in fmt):
        raise Unsupported("DEFAULT_FORMAT characters")
    return ('Definition src_DEFAULT_FORMAT : text := t_of_string "%s".\n'
            "Definition src_DEFAULT_COLORS : list (Z * Z) := [%s]%%Z.\n"
            "Definition src_ansi_color (code : Z) : text := py_percent_d %s code %s.\n"
            "Definition src_ANSI_NORMAL : text := %s.\n"
            % (fmt, "; ".join(pairs), gtext(m.group(1)), gtext(m.group(2)), gtext(normal)))


# ---------------------------------------------------------------- format
def tr_fstring(node):
    if not isinstance(node, ast.JoinedStr):
        raise Unsupported("f-string expected: " + ast.unparse(node))
    parts = []
    for v in node.values:
        if isinstance(v, ast.Constant) and isinstance(v.value, str):
            parts.append("FLit %s" % gtext(v.value))
        elif isinstance(v, ast.FormattedValue) and v.conversion == ord("r") and v.format_spec is None:
            src = ast.unparse(v.value)
            if src == "e":
                parts.append("FExcRepr")
            elif src == "record.__dict__":
                parts.append("FDictRepr")
            else:
                raise Unsupported("f-string value " + src)
        else:
            raise Unsupported("f-string part " + ast.dump(v))
    return "[" + "; ".join(parts) + "]"


def tr_format(fn):
    if [a.arg for a in fn.args.args] != ["self", "record"]:
        raise Unsupported("format signature")
    b = fn.body
    if len(b) != 7:
        raise Unsupported("format: %d statements" % len(b))
    # 1. try: message = record.getMessage(); assert isinstance(...); record.message = _safe_unicode(message)
    #    except <classes> as e: record.message = f"..."
    t = b[0]
    if not isinstance(t, ast.Try) or t.orelse or t.finalbody or len(t.handlers) != 1 or len(t.body) != 3:
        raise Unsupported("format: try shape")
    expect(t.body[0], "message = record.getMessage()")
    expect(t.body[1], "assert isinstance(message, basestring_type)")
    expect(t.body[2], "record.message = _safe_unicode(message)")
    h = t.handlers[0]
    if h.name != "e" or len(h.body) != 1 or not isinstance(h.body[0], ast.Assign) or ast.unparse(h.body[0].targets[0]) != "record.message" \
            or len(h.body[0].targets) != 1:
        raise Unsupported("format: except handler shape")
    hs, parts = handlers(h.type), tr_fstring(h.body[0].value)
    # 2. asctime
    expect(b[1], "record.asctime = self.formatTime(record, cast(str, self.datefmt))")
    # 3. colours
    c = b[2]
    if not isinstance(c, ast.If) or ast.unparse(c.test) != "record.levelno in self._colors" or len(c.body) != 2 or len(c.orelse) != 1:
        raise Unsupported("format: colour `if`")
    expect(c.body[0], "record.color = self._colors[record.levelno]")
    expect(c.body[1], "record.end_color = self._normal")
    e = c.orelse[0]
    if not (isinstance(e, ast.Assign) and [ast.unparse(x) for x in e.targets] == ["record.color", "record.end_color"]):
        raise Unsupported("format: no-colour assignment")
    none = gtext(const_str(e.value))
    # 4. interpolation
    expect(b[3], "formatted = self._fmt % record.__dict__")
    # 5. exc_info
    expect(b[4], "if record.exc_info:\n    if not record.exc_text:\n        record.exc_text = self.formatException(record.exc_info)")
    # 6. exc_text lines
    x = b[5]
    if not isinstance(x, ast.If) or ast.unparse(x.test) != "record.exc_text" or x.orelse or len(x.body) != 3:
        raise Unsupported("format: exc_text `if`")
    expect(x.body[0], "lines = [formatted.rstrip()]")
    ext = x.body[1]
    ok = (isinstance(ext, ast.Expr) and isinstance(ext.value, ast.Call) and ast.unparse(ext.value.func) == "lines.extend"
          and len(ext.value.args) == 1 and isinstance(ext.value.args[0], ast.GeneratorExp))
    if not ok:
        raise Unsupported("format: lines.extend shape")
    g = ext.value.args[0]
    if ast.unparse(g.elt) != "_safe_unicode(ln)" or len(g.generators) != 1 or g.generators[0].ifs or ast.unparse(g.generators[0].target) != "ln":
        raise Unsupported("format: generator shape")
    it = g.generators[0].iter
    if not (isinstance(it, ast.Call) and ast.unparse(it.func) == "record.exc_text.split" and len(it.args) == 1 and not it.keywords):
        raise Unsupported("format: split shape")
    split_sep = gchar(const_str(it.args[0]))
    j = x.body[2]
    if not (isinstance(j, ast.Assign) and ast.unparse(j.targets[0]) == "formatted" and isinstance(j.value, ast.Call)
            and isinstance(j.value.func, ast.Attribute) and j.value.func.attr == "join" and ast.unparse(j.value.args[0]) == "lines"
            and len(j.value.args) == 1):
        raise Unsupported("format: join shape")
    join_sep = gtext(const_str(j.value.func.value))
    # 7. return formatted.replace(a, b)
    r = b[6]
    if not (isinstance(r, ast.Return) and isinstance(r.value, ast.Call) and ast.unparse(r.value.func) == "formatted.replace"
            and len(r.value.args) == 2 and not r.value.keywords):
        raise Unsupported("format: return shape")
    rep_from, rep_to = gchar(const_str(r.value.args[0])), gtext(const_str(r.value.args[1]))
    return ("Definition src_format (i : log_input) : outcome (text * option text) :=\n"
            "  (* try: message = record.getMessage(); assert isinstance(message, str); record.message = _safe_unicode(message)\n"
            "     except ... as e: record.message = f\"...\" *)\n"
            "  bind (py_try (bind (py_getMessage i) (fun message =>\n"
            "                bind (py_assert (in_optimized i) (py_isinstance_str message)) (fun _ =>\n"
            "                src_safe_unicode message)))\n"
            "               %s\n"
            "               (fun e => omap PStr (py_fstring %s e (in_dict_repr i)))) (fun message_v =>\n"
            "  bind (py_message_fval message_v) (fun message =>\n"
            "  let asctime := in_asctime i in\n"
            "  let '(color, end_color) := py_colors (in_color i) src_ansi_color src_ANSI_NORMAL %s (in_levelno i) in\n"
            "  bind (percent_format (in_fmt i) (py_record_dict i message asctime color end_color)) (fun formatted =>\n"
            "  bind (if in_exc_info i then\n"
            "          if negb (py_truthy (in_exc_text i)) then omap Some (in_format_exc i) else Returned (in_exc_text i)\n"
            "        else Returned (in_exc_text i)) (fun exc_text =>\n"
            "  bind (if py_truthy exc_text then\n"
            "          bind (py_map_str src_safe_unicode (py_split1 %s (py_text_of exc_text))) (fun rest =>\n"
            "          Returned (py_join %s (rstrip formatted :: rest)))\n"
            "        else Returned formatted) (fun formatted =>\n"
            "  Returned (py_replace1 %s %s formatted, exc_text)))))).\n"
            % (hs, parts, none, split_sep, join_sep, rep_from, rep_to))


def emit(repo, out):
    src = open(os.path.join(repo, "tornado", "log.py")).read()
    tree = ast.parse(src)
    txt = ("(* GENERATED by translators/c45_src.py from tornado/log.py — do not edit. *)\n"
           "From Coq Require Import List NArith ZArith Bool String.\nImport ListNotations.\n"
           "From TV Require Import C45.Model C45.PyPrims.\nLocal Open Scope N_scope.\n\n"
           + tr_safe_unicode(find(tree, "_safe_unicode")) + "\n" + tr_init(tree) + "\n"
           + tr_format(find(tree, "format", "LogFormatter")))
    old = open(out).read() if os.path.exists(out) else None
    if old != txt:
        open(out, "w").write(txt)
    return txt


if __name__ == "__main__":
    repo = sys.argv[1] if len(sys.argv) > 1 else "/repo"
    out = sys.argv[2] if len(sys.argv) > 2 else os.path.join(os.path.dirname(os.path.dirname(os.path.abspath(__file__))), "coq/Gen/C45_src.v")
    print(emit(repo, out))
