#!/venv/bin/python
"""Fail-closed translator for C39: reads tornado/ioloop.py::PeriodicCallback._update_next
from the working tree with `ast` and emits coq/Gen/C39_src.v: the body as a term of
the small statement language of coq/C39/Ast.v (`src_update_next : list stmt`).

Only the constructs below are accepted (names/attributes of the six variables, float
and int literals, + - * /, math.floor(x), random.random(), `x = e`, `x += e`,
`x *= e`, `if <var>:` / `if a <= b:` with optional else); anything else raises
Unsupported, which the check treats as a broken obligation.  Gen/C39_equiv.v then
proves the emitted tree equal to the tree the model was written from."""
import ast
import os
import sys
from fractions import Fraction


class Unsupported(Exception):
    pass


NAMES = {"current_time": "VNow", "callback_time_sec": "VCts"}
ATTRS = {"callback_time": "VCt", "jitter": "VJitter", "_next_timeout": "VNext"}
ASSIGNABLE = {"VCts", "VNext"}


def var(n):
    if isinstance(n, ast.Name) and n.id in NAMES:
        return NAMES[n.id]
    if isinstance(n, ast.Attribute) and isinstance(n.value, ast.Name) and n.value.id == "self" and n.attr in ATTRS:
        return ATTRS[n.attr]
    raise Unsupported("variable: " + ast.dump(n))


def is_call(n, mod, fn, nargs):
    return (isinstance(n, ast.Call) and isinstance(n.func, ast.Attribute) and isinstance(n.func.value, ast.Name)
            and n.func.value.id == mod and n.func.attr == fn and len(n.args) == nargs and not n.keywords)


def z(i):
    return "(%d)%%Z" % i


def expr(n):
    if isinstance(n, ast.Constant):
        v = n.value
        if isinstance(v, bool) or not isinstance(v, (int, float)):
            raise Unsupported("literal %r" % (v,))
        if isinstance(v, int):
            if abs(v) >= 2 ** 53:
                raise Unsupported("int literal too large")
            return "(EInt %s)" % z(v)
        if v != v or v in (float("inf"), float("-inf")):
            raise Unsupported("non-finite literal")
        fr = Fraction(v)      # exact value of the float literal
        if abs(fr.numerator) >= 2 ** 53 or fr.denominator >= 2 ** 53:
            raise Unsupported("float literal %r is not a small dyadic" % v)
        return "(EFloat %s %d%%positive)" % (z(fr.numerator), fr.denominator)
    if isinstance(n, ast.BinOp):
        ops = {ast.Add: "EAdd", ast.Sub: "ESub", ast.Mult: "EMul", ast.Div: "EDiv"}
        if type(n.op) not in ops:
            raise Unsupported("operator " + type(n.op).__name__)
        return "(%s %s %s)" % (ops[type(n.op)], expr(n.left), expr(n.right))
    if is_call(n, "math", "floor", 1):
        return "(EFloor %s)" % expr(n.args[0])
    if is_call(n, "random", "random", 0):
        return "(EVar VRandom)"
    if isinstance(n, (ast.Name, ast.Attribute)):
        return "(EVar %s)" % var(n)
    raise Unsupported("expression: " + ast.dump(n))


def cond(n):
    if isinstance(n, ast.Compare):
        if len(n.ops) != 1 or not isinstance(n.ops[0], ast.LtE) or len(n.comparators) != 1:
            raise Unsupported("comparison: " + ast.dump(n))
        return "(CLe %s %s)" % (expr(n.left), expr(n.comparators[0]))
    if isinstance(n, (ast.Name, ast.Attribute)):
        return "(CTruthy %s)" % var(n)
    raise Unsupported("condition: " + ast.dump(n))


def target(n):
    v = var(n)
    if v not in ASSIGNABLE:
        raise Unsupported("assignment to " + v)
    return v


def stmts(body):
    return "[" + "; ".join(stmt(s) for s in body) + "]"


def stmt(s):
    if isinstance(s, ast.Assign):
        if len(s.targets) != 1:
            raise Unsupported("multiple assignment")
        return "SAssign %s %s" % (target(s.targets[0]), expr(s.value))
    if isinstance(s, ast.AugAssign):
        ops = {ast.Add: "SAugAdd", ast.Mult: "SAugMul"}
        if type(s.op) not in ops:
            raise Unsupported("augmented operator " + type(s.op).__name__)
        return "%s %s %s" % (ops[type(s.op)], target(s.target), expr(s.value))
    if isinstance(s, ast.If):
        return "SIf %s %s %s" % (cond(s.test), stmts(s.body), stmts(s.orelse))
    raise Unsupported("statement: " + type(s).__name__)


def translate(src):
    tree = ast.parse(src)
    cls = [n for n in tree.body if isinstance(n, ast.ClassDef) and n.name == "PeriodicCallback"]
    if len(cls) != 1:
        raise Unsupported("class PeriodicCallback not found")
    fns = [n for n in cls[0].body if isinstance(n, (ast.FunctionDef, ast.AsyncFunctionDef)) and n.name == "_update_next"]
    if len(fns) != 1 or not isinstance(fns[0], ast.FunctionDef):
        raise Unsupported("_update_next not found (or not a plain function)")
    fn = fns[0]
    a = fn.args
    if [x.arg for x in a.args] != ["self", "current_time"] or a.vararg or a.kwarg or a.kwonlyargs or a.defaults or a.posonlyargs:
        raise Unsupported("signature of _update_next")
    if fn.decorator_list:
        raise Unsupported("decorators on _update_next")
    body = fn.body
    if body and isinstance(body[0], ast.Expr) and isinstance(body[0].value, ast.Constant) and isinstance(body[0].value.value, str):
        body = body[1:]
    # the callers must still be the ones the machine models
    calls = []
    for n in ast.walk(cls[0]):
        if isinstance(n, ast.Call) and isinstance(n.func, ast.Attribute) and n.func.attr == "_update_next":
            calls.append(ast.unparse(n))
    if calls != ["self._update_next(self.io_loop.time())"]:
        raise Unsupported("callers of _update_next: %r" % (calls,))
    return stmts(body)


RUNLOOP = ("start", "stop", "_run", "_schedule_next")


def runloop_sources(src):
    """The four run-loop methods, normalised by ast.unparse (docstrings and comments dropped), as text.
    They are small and fixed; Gen/C39_equiv.v proves each equal to the text the machine of C39/Model.v was
    written from (C39/RunLoopSrc.v), so ANY change to them is a broken obligation (fail closed)."""
    tree = ast.parse(src)
    cls = [n for n in tree.body if isinstance(n, ast.ClassDef) and n.name == "PeriodicCallback"]
    if len(cls) != 1:
        raise Unsupported("class PeriodicCallback not found")
    out = {}
    for fn in cls[0].body:
        if isinstance(fn, (ast.FunctionDef, ast.AsyncFunctionDef)) and fn.name in RUNLOOP:
            if fn.name in out:
                raise Unsupported("duplicate method " + fn.name)
            if fn.decorator_list:
                raise Unsupported("decorator on " + fn.name)
            b = fn.body
            if b and isinstance(b[0], ast.Expr) and isinstance(b[0].value, ast.Constant) and isinstance(b[0].value.value, str):
                fn.body = b[1:]
            text = ast.unparse(fn)
            if not all(c == "\n" or 32 <= ord(c) < 127 for c in text):
                raise Unsupported("non-ASCII text in " + fn.name)
            out[fn.name] = text
    missing = [m for m in RUNLOOP if m not in out]
    if missing:
        raise Unsupported("methods not found: %r" % missing)
    # every attribute of self that the class assigns must be one the machine has state for
    assigned = set()
    for n in ast.walk(cls[0]):
        tg = []
        if isinstance(n, ast.Assign):
            tg = n.targets
        elif isinstance(n, (ast.AugAssign, ast.AnnAssign)):
            tg = [n.target]
        for t in tg:
            if isinstance(t, ast.Attribute) and isinstance(t.value, ast.Name) and t.value.id == "self":
                assigned.add(t.attr)
    known = {"callback", "callback_time", "jitter", "_running", "_timeout", "io_loop", "_next_timeout"}
    if not assigned <= known:
        raise Unsupported("PeriodicCallback assigns unmodelled attributes: %r" % sorted(assigned - known))
    return out


def coq_string(text):
    return '"' + text.replace('"', '""') + '"'


def emit(repo, out_path):
    src = open(os.path.join(repo, "tornado", "ioloop.py")).read()
    term = translate(src)
    rl = runloop_sources(src)
    text = ("(* GENERATED by translators/c39_src.py from tornado/ioloop.py (PeriodicCallback) — do not edit *)\n"
            "From Coq Require Import List ZArith String.\nImport ListNotations.\nFrom TV Require Import C39.Ast.\n"
            "Definition src_update_next : list stmt :=\n  %s.\n" % term)
    for m in RUNLOOP:
        text += "Definition src_%s : string :=\n%s%%string.\n" % (m.lstrip("_"), coq_string(rl[m]))
    old = open(out_path).read() if os.path.exists(out_path) else None
    if old != text:
        open(out_path, "w").write(text)


if __name__ == "__main__":
    repo = sys.argv[1] if len(sys.argv) > 1 else "/repo"
    print(translate(open(os.path.join(repo, "tornado", "ioloop.py")).read()))
