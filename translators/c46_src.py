#!/venv/bin/python
"""Fail-closed translator for C46: reads tornado/locale.py with the `ast` module and emits
coq/Gen/C46_src.v:

  src_english_codes, src_friendly_number   -- Locale.friendly_number, statement by statement
  src_skew_seconds                         -- the constant of the clock-skew guard of format_date
  src_relative                             -- the `if relative and days == 0:` block of format_date
                                              (thresholds, divisors, messages)

Only the statement / expression shapes handled below are accepted; anything else raises
Unsupported (the check then reports a broken obligation and relies on the behavioural
correspondence).  The Python primitives used by the output (py_str_int, py_startswith,
py_slice_*, join, py_while, py_round_div) are defined in coq/C46/Model.v."""
import ast
import os
import re
import sys


class Unsupported(Exception):
    pass


def find_method(tree, cls, name):
    cs = [n for n in tree.body if isinstance(n, ast.ClassDef) and n.name == cls]
    if len(cs) != 1:
        raise Unsupported("class %s" % cls)
    fs = [n for n in cs[0].body if isinstance(n, ast.FunctionDef) and n.name == name]
    if len(fs) != 1:
        raise Unsupported("method %s.%s" % (cls, name))
    return fs[0]


def strip_doc(body):
    if body and isinstance(body[0], ast.Expr) and isinstance(body[0].value, ast.Constant) and isinstance(body[0].value.value, str):
        return body[1:]
    return body


def gstr(s):
    if not isinstance(s, str) or not all(32 <= ord(c) < 127 and c != '"' for c in s):
        raise Unsupported("string constant %r" % (s,))
    return '(codes "%s")' % s


def posint(node):
    if isinstance(node, ast.Constant) and type(node.value) is int and 0 < node.value < 1000:
        return node.value
    raise Unsupported("small positive int expected: " + ast.dump(node))


def negint(node):
    if isinstance(node, ast.UnaryOp) and isinstance(node.op, ast.USub):
        return posint(node.operand)
    raise Unsupported("negative int constant expected: " + ast.dump(node))


# ------------------------------------------------------------------ friendly_number
class Friendly:
    """A tiny compiler from a straight-line/if/while subset of Python over str, list[str]
    to option-valued Gallina."""

    def __init__(self):
        self.codes = None

    def is_str_call(self, e, env):
        return (isinstance(e, ast.Call) and isinstance(e.func, ast.Name) and e.func.id == "str" and not e.keywords
                and len(e.args) == 1 and isinstance(e.args[0], ast.Name) and env.get(e.args[0].id) == "int")

    def expr(self, e, env):
        if isinstance(e, ast.Constant) and isinstance(e.value, str):
            return gstr(e.value), "str"
        if isinstance(e, ast.Name) and isinstance(e.ctx, ast.Load):
            if e.id not in env:
                raise Unsupported("unbound name " + e.id)
            return e.id, env[e.id]
        if isinstance(e, ast.List) and not e.elts:
            return "(@nil (list N))", "list"
        if isinstance(e, ast.BinOp) and isinstance(e.op, ast.Add):
            a, ta = self.expr(e.left, env)
            b, tb = self.expr(e.right, env)
            if ta == tb == "str":
                return "(%s ++ %s)" % (a, b), "str"
            raise Unsupported("+ on non-strings")
        if isinstance(e, ast.Subscript) and isinstance(e.slice, ast.Slice) and e.slice.step is None:
            a, ta = self.expr(e.value, env)
            if ta != "str":
                raise Unsupported("slice of non-string")
            lo, hi = e.slice.lower, e.slice.upper
            if lo is not None and hi is None and isinstance(lo, ast.Constant):
                return "(py_slice_from %d %s)" % (posint(lo), a), "str"
            if lo is not None and hi is None:
                return "(py_slice_last %d %s)" % (negint(lo), a), "str"
            if lo is None and hi is not None:
                return "(py_slice_butlast %d %s)" % (negint(hi), a), "str"
            raise Unsupported("slice shape")
        if isinstance(e, ast.Call) and isinstance(e.func, ast.Attribute) and not e.keywords and len(e.args) == 1:
            if e.func.attr == "startswith":
                a, ta = self.expr(e.func.value, env)
                b, tb = self.expr(e.args[0], env)
                if ta == tb == "str" and isinstance(e.args[0], ast.Constant):
                    return "(py_startswith %s %s)" % (a, b), "bool"
            if e.func.attr == "join" and isinstance(e.func.value, ast.Constant):
                sep, _ = self.expr(e.func.value, env)
                arg = e.args[0]
                if (isinstance(arg, ast.Call) and isinstance(arg.func, ast.Name) and arg.func.id == "reversed"
                        and len(arg.args) == 1 and not arg.keywords):
                    l, tl = self.expr(arg.args[0], env)
                    if tl == "list":
                        return "(join %s (rev %s))" % (sep, l), "str"
                else:
                    l, tl = self.expr(arg, env)
                    if tl == "list":
                        return "(join %s %s)" % (sep, l), "str"
        raise Unsupported("expression: " + ast.dump(e))

    def tup(self, names):
        return names[0] if len(names) == 1 else "(" + ", ".join(names) + ")"

    def pat(self, names):
        return names[0] if len(names) == 1 else "'(" + ", ".join(names) + ")"

    def simple_updates(self, body, env):
        """body made only of `x = e` / `x.append(e)` on already-bound names -> (names, let-chain prefix)"""
        names, lets = [], []
        for st in body:
            if isinstance(st, ast.Assign) and len(st.targets) == 1 and isinstance(st.targets[0], ast.Name):
                n = st.targets[0].id
                if n not in env:
                    raise Unsupported("assignment to a new name inside a block: " + n)
                if self.is_str_call(st.value, env):
                    raise Unsupported("str() inside a block")
                v, t = self.expr(st.value, env)
                if t != env[n]:
                    raise Unsupported("type change of " + n)
                lets.append("let %s := %s in " % (n, v))
            elif (isinstance(st, ast.Expr) and isinstance(st.value, ast.Call) and isinstance(st.value.func, ast.Attribute)
                  and st.value.func.attr == "append" and isinstance(st.value.func.value, ast.Name)
                  and len(st.value.args) == 1 and not st.value.keywords):
                n = st.value.func.value.id
                if env.get(n) != "list":
                    raise Unsupported("append on non-list")
                v, t = self.expr(st.value.args[0], env)
                if t != "str":
                    raise Unsupported("append of non-string")
                lets.append("let %s := %s ++ [%s] in " % (n, n, v))
            else:
                raise Unsupported("statement inside block: " + ast.dump(st))
            if n not in names:
                names.append(n)
        return names, "".join(lets)

    def stmts(self, body, env, ind="  "):
        if not body:
            raise Unsupported("function falls off the end")
        st, rest = body[0], body[1:]
        if isinstance(st, ast.Return):
            if rest or st.value is None:
                raise Unsupported("return shape")
            if self.is_str_call(st.value, env):
                return "%spy_str_int %s" % (ind, st.value.args[0].id)
            v, t = self.expr(st.value, env)
            if t != "str":
                raise Unsupported("returns a non-string")
            return "%sSome %s" % (ind, v)
        if isinstance(st, ast.Assign) and len(st.targets) == 1 and isinstance(st.targets[0], ast.Name):
            n = st.targets[0].id
            if n in ("en", "value") or not re.fullmatch(r"[a-z_][a-z0-9_]*", n):
                raise Unsupported("assignment target " + n)
            if self.is_str_call(st.value, env):
                e2 = dict(env)
                e2[n] = "str"
                return "%sbind (py_str_int %s) (fun %s =>\n%s)" % (ind, st.value.args[0].id, n, self.stmts(rest, e2, ind))
            v, t = self.expr(st.value, env)
            if t not in ("str", "list"):
                raise Unsupported("assignment of a %s" % t)
            e2 = dict(env)
            e2[n] = t
            return "%slet %s := %s in\n%s" % (ind, n, v, self.stmts(rest, e2, ind))
        if isinstance(st, ast.If) and not st.orelse:
            # `if self.code not in (...): return ...`
            t = st.test
            if (isinstance(t, ast.Compare) and len(t.ops) == 1 and isinstance(t.ops[0], ast.NotIn)
                    and ast.dump(t.left) == ast.dump(ast.parse("self.code", mode="eval").body)
                    and isinstance(t.comparators[0], ast.Tuple)
                    and all(isinstance(c, ast.Constant) and isinstance(c.value, str) for c in t.comparators[0].elts)):
                if self.codes is not None:
                    raise Unsupported("second locale-code test")
                self.codes = [c.value for c in t.comparators[0].elts]
                return "%sif negb en then\n%s\n%selse\n%s" % (ind, self.stmts(st.body, env, ind + "  "), ind, self.stmts(rest, env, ind))
            c, tc = self.expr(t, env)
            if tc != "bool":
                raise Unsupported("if-test type")
            names, lets = self.simple_updates(st.body, env)
            return "%slet %s := if %s then (%s%s) else %s in\n%s" % (
                ind, self.pat(names), c, lets, self.tup(names), self.tup(names), self.stmts(rest, env, ind))
        if isinstance(st, ast.While) and not st.orelse and isinstance(st.test, ast.Name) and env.get(st.test.id) in ("str", "list"):
            names, lets = self.simple_updates(st.body, env)
            if st.test.id not in names:
                raise Unsupported("loop does not change its test variable")
            return "%sbind (py_while (S (List.length %s)) (fun %s => py_truthy %s) (fun %s => %s%s) %s) (fun %s =>\n%s)" % (
                ind, st.test.id, self.pat(names), st.test.id, self.pat(names), lets, self.tup(names), self.tup(names),
                self.pat(names), self.stmts(rest, env, ind))
        raise Unsupported("statement: " + ast.dump(st)[:200])


def translate_friendly(tree):
    fn = find_method(tree, "Locale", "friendly_number")
    if [a.arg for a in fn.args.args] != ["self", "value"] or fn.args.vararg or fn.args.kwarg or fn.args.kwonlyargs:
        raise Unsupported("friendly_number signature")
    f = Friendly()
    body = f.stmts(strip_doc(fn.body), {"value": "int"})
    if f.codes is None:
        raise Unsupported("no locale-code test")
    return f.codes, body


# ------------------------------------------------------------------ format_date
def norm_dump(node):
    return re.sub(r"Constant\(value=\d+\)", "Constant(value=K)", ast.dump(node))


def same_shape(node, src):
    return norm_dump(node) == norm_dump(ast.parse(src).body[0])


def const_expr(e):
    """int/float constant expression with an integral value -> (gallina text, value)"""
    if isinstance(e, ast.Constant) and type(e.value) in (int, float) and e.value == int(e.value) and 0 < e.value < 10 ** 6:
        return "%d" % int(e.value), int(e.value)
    if isinstance(e, ast.BinOp) and isinstance(e.op, ast.Mult):
        a, va = const_expr(e.left)
        b, vb = const_expr(e.right)
        return "(%s * %s)" % (a, b), va * vb
    raise Unsupported("constant expression: " + ast.dump(e))


def is_float_expr(e):
    if isinstance(e, ast.Constant):
        return type(e.value) is float
    if isinstance(e, ast.BinOp):
        return is_float_expr(e.left) or is_float_expr(e.right)
    return False


def rel_block(body, env, ind="  "):
    if not body:
        raise Unsupported("relative block falls through")
    st, rest = body[0], body[1:]
    if (isinstance(st, ast.If) and not st.orelse and isinstance(st.test, ast.Compare) and len(st.test.ops) == 1
            and isinstance(st.test.ops[0], ast.Lt) and isinstance(st.test.left, ast.Name) and st.test.left.id == "seconds"):
        c, _ = const_expr(st.test.comparators[0])
        return "%sif seconds <? %s then\n%s\n%selse\n%s" % (ind, c, rel_block(st.body, env, ind + "  "), ind, rel_block(rest, env, ind))
    if isinstance(st, ast.Assign) and len(st.targets) == 1 and isinstance(st.targets[0], ast.Name):
        n, v = st.targets[0].id, st.value
        if not (isinstance(v, ast.Call) and isinstance(v.func, ast.Name) and v.func.id == "round" and len(v.args) == 1 and not v.keywords
                and isinstance(v.args[0], ast.BinOp) and isinstance(v.args[0].op, ast.Div)
                and isinstance(v.args[0].left, ast.Name) and v.args[0].left.id == "seconds" and is_float_expr(v.args[0].right)):
            raise Unsupported("assignment in relative block: " + ast.dump(st))
        if n == "seconds" or not re.fullmatch(r"[a-z]+", n):
            raise Unsupported("target " + n)
        d, _ = const_expr(v.args[0].right)
        return "%slet %s := py_round_div seconds %s in\n%s" % (ind, n, d, rel_block(rest, dict(env, **{n: 1}), ind))
    if isinstance(st, ast.Return) and not rest:
        v = st.value
        # _("1 x ago", "%(k)d xs ago", n) % {"k": n}
        if (isinstance(v, ast.BinOp) and isinstance(v.op, ast.Mod) and isinstance(v.left, ast.Call)
                and isinstance(v.left.func, ast.Name) and v.left.func.id == "_" and len(v.left.args) == 3 and not v.left.keywords
                and isinstance(v.right, ast.Dict) and len(v.right.keys) == 1):
            sing, plur, cnt = v.left.args
            key, val = v.right.keys[0], v.right.values[0]
            if (isinstance(sing, ast.Constant) and isinstance(plur, ast.Constant) and isinstance(cnt, ast.Name)
                    and isinstance(key, ast.Constant) and isinstance(val, ast.Name) and val.id == cnt.id and cnt.id in env
                    and isinstance(sing.value, str) and isinstance(plur.value, str) and isinstance(key.value, str)):
                prefix = "%%(%s)d" % key.value
                if "%" in sing.value or not plur.value.startswith(prefix) or "%" in plur.value[len(prefix):]:
                    raise Unsupported("message shape %r / %r" % (sing.value, plur.value))
                return "%s(%s, %s, %s)" % (ind, gstr(sing.value), gstr(plur.value[len(prefix):]), cnt.id)
    raise Unsupported("relative block statement: " + ast.dump(st)[:200])


def translate_format_date(tree):
    fn = find_method(tree, "Locale", "format_date")
    body = strip_doc(fn.body)
    skew = None
    seen = set()
    rel = None
    for st in body:
        if same_shape(st, "if date > now:\n  if relative and (date - now) < datetime.timedelta(seconds=60):\n    date = now\n  else:\n    full_format = True\n"):
            skew = st.body[0].test.values[1].comparators[0].keywords[0].value.value
        for name, src in (("difference", "difference = now - date"), ("seconds", "seconds = difference.seconds"),
                          ("days", "days = difference.days"), ("now", "now = datetime.datetime.now(datetime.timezone.utc)")):
            if ast.dump(st) == ast.dump(ast.parse(src).body[0]):
                seen.add(name)
        if isinstance(st, ast.If) and ast.dump(st.test) == ast.dump(ast.parse("not full_format", mode="eval").body) and not st.orelse:
            inner = st.body[0]
            if (isinstance(inner, ast.If) and not inner.orelse
                    and ast.dump(inner.test) == ast.dump(ast.parse("relative and days == 0", mode="eval").body)):
                if seen != {"difference", "seconds", "days", "now"} or skew is None:
                    raise Unsupported("definitions of now/difference/seconds/days/skew guard not found before the relative block")
                rel = rel_block(inner.body, {"seconds": 1})
    # exactly one assignment to each name the block depends on
    for name in ("seconds", "days", "difference", "now"):
        stores = [n for n in ast.walk(fn) if isinstance(n, ast.Name) and isinstance(n.ctx, ast.Store) and n.id == name]
        if len(stores) != 1:
            raise Unsupported("%d assignments to %s" % (len(stores), name))
    if rel is None or skew is None:
        raise Unsupported("relative block / skew guard not found")
    return skew, rel


# ------------------------------------------------------------------ format_date: absolute formats
def glist_codes(s):
    """any str -> explicit code point list (for non-ASCII constants)"""
    if not isinstance(s, str):
        raise Unsupported("string expected")
    return "[" + "; ".join("%d%%N" % ord(c) for c in s) + "]" if s else "(@nil N)"


def underscore_const(e):
    """_("...") -> the string"""
    if (isinstance(e, ast.Call) and isinstance(e.func, ast.Name) and e.func.id == "_" and len(e.args) == 1 and not e.keywords
            and isinstance(e.args[0], ast.Constant) and isinstance(e.args[0].value, str)):
        return e.args[0].value
    raise Unsupported("_(constant) expected: " + ast.dump(e)[:120])


def format_value(e):
    """_(A) | _(A) if shorter else _(B)  ->  Gallina text of type list N"""
    if isinstance(e, ast.IfExp):
        if not (isinstance(e.test, ast.Name) and e.test.id == "shorter"):
            raise Unsupported("conditional format on something else than `shorter`")
        return "(if shorter then %s else %s)" % (gstr(underscore_const(e.body)), gstr(underscore_const(e.orelse)))
    return gstr(underscore_const(e))


def days_cond(e):
    if isinstance(e, ast.Compare) and len(e.ops) == 1 and isinstance(e.left, ast.Name) and e.left.id == "days":
        k = posint(e.comparators[0]) if not (isinstance(e.comparators[0], ast.Constant) and e.comparators[0].value == 0) else 0
        if isinstance(e.ops[0], ast.Eq):
            return "(days =? %d)" % k
        if isinstance(e.ops[0], ast.Lt):
            return "(days <? %d)" % k
    if isinstance(e, ast.Name) and e.id == "relative":
        return "relative"
    if ast.dump(e) == ast.dump(ast.parse("local_date.day == local_yesterday.day", mode="eval").body):
        return "same_day"
    if isinstance(e, ast.BoolOp) and isinstance(e.op, ast.And):
        return "(" + " && ".join(days_cond(v) for v in e.values) + ")"
    raise Unsupported("format condition: " + ast.dump(e)[:160])


def format_chain(st, ind="  "):
    """if/elif chain of `format = ...` -> option-valued Gallina (None = `format` left None)"""
    if not (isinstance(st, ast.If) and len(st.body) == 1 and isinstance(st.body[0], ast.Assign)
            and len(st.body[0].targets) == 1 and isinstance(st.body[0].targets[0], ast.Name) and st.body[0].targets[0].id == "format"):
        raise Unsupported("format chain link: " + ast.dump(st)[:160])
    head = "%sif %s then Some %s\n%selse " % (ind, days_cond(st.test), format_value(st.body[0].value), ind)
    if not st.orelse:
        return head + "None"
    if len(st.orelse) != 1:
        raise Unsupported("format chain else-branch")
    return head + "\n" + format_chain(st.orelse[0], ind)


def translate_absolute(tree):
    fn = find_method(tree, "Locale", "format_date")
    body = strip_doc(fn.body)
    chain = full = None
    times, clock_test = [], None
    required = {"local_date = date - datetime.timedelta(minutes=gmt_offset)": 0,
                "local_now = now - datetime.timedelta(minutes=gmt_offset)": 0,
                "local_yesterday = local_now - datetime.timedelta(hours=24)": 0,
                "format = None": 0}
    for st in body:
        for src in required:
            if ast.dump(st) == ast.dump(ast.parse(src).body[0]):
                required[src] += 1
        if isinstance(st, ast.If) and ast.dump(st.test) == ast.dump(ast.parse("not full_format", mode="eval").body) and not st.orelse:
            if len(st.body) != 2:
                raise Unsupported("`if not full_format:` body has %d statements" % len(st.body))
            chain = format_chain(st.body[1])
        if isinstance(st, ast.If) and ast.dump(st.test) == ast.dump(ast.parse("format is None", mode="eval").body) and not st.orelse:
            if not (len(st.body) == 1 and isinstance(st.body[0], ast.Assign) and st.body[0].targets[0].id == "format"):
                raise Unsupported("`if format is None:` body")
            full = format_value(st.body[0].value)
        if (isinstance(st, ast.Assign) and isinstance(st.targets[0], ast.Name) and st.targets[0].id == "tfhour_clock"):
            if not same_shape(st, 'tfhour_clock = self.code not in ("en", "en_US", "zh_CN")'):
                raise Unsupported("tfhour_clock shape")
            clock_test = [c.value for c in st.value.comparators[0].elts]
    # the three str_time assignments, in source order
    for node in ast.walk(fn):
        if isinstance(node, ast.Assign) and isinstance(node.targets[0], ast.Name) and node.targets[0].id == "str_time":
            v = node.value
            if not (isinstance(v, ast.BinOp) and isinstance(v.op, ast.Mod) and isinstance(v.left, ast.Constant) and isinstance(v.left.value, str)):
                raise Unsupported("str_time assignment")
            consts = [n.value for n in ast.walk(v.right) if isinstance(n, ast.Constant)]
            times.append((v.left.value, [c for c in consts if isinstance(c, str)] + sorted(c for c in consts if not isinstance(c, str))))
    if any(v != 1 for v in required.values()) or chain is None or full is None or clock_test is None or len(times) != 3:
        raise Unsupported("absolute-format block of format_date not in the expected shape: %r" % (required,))
    expect = [("%d:%02d", []), ("%s%d:%02d", ["\u4e0a\u5348", "\u4e0b\u5348", 12, 12, 12]), ("%d:%02d %s", ["am", "pm", 12, 12, 12])]
    if times != expect:
        raise Unsupported("str_time formats changed: %r" % (times,))
    return chain, full, clock_test, times


def translate_format_day(tree):
    fn = find_method(tree, "Locale", "format_day")
    tmpl = ast.parse(
        "def format_day(self, date, gmt_offset=0, dow=True):\n"
        "    local_date = date - datetime.timedelta(minutes=gmt_offset)\n"
        "    _ = self.translate\n"
        "    if dow:\n"
        "        return _('A') % {'month_name': self._months[local_date.month - 1], 'weekday': self._weekdays[local_date.weekday()], 'day': str(local_date.day)}\n"
        "    else:\n"
        "        return _('B') % {'month_name': self._months[local_date.month - 1], 'day': str(local_date.day)}\n").body[0]

    def shape(body):
        return re.sub(r"Constant\(value='[^']*'\)", "Constant(value=S)", "".join(ast.dump(b) for b in body))
    body = strip_doc(fn.body)
    # keys must be identical, only the two templates may differ
    if shape(body) != shape(tmpl.body):
        raise Unsupported("format_day body shape")
    keys = [k.value for n in body for k in (ast.walk(n)) if isinstance(k, ast.Constant) and isinstance(k.value, str)]
    if keys[1:4] != ["month_name", "weekday", "day"] or keys[5:] != ["month_name", "day"]:
        raise Unsupported("format_day keys %r" % keys)
    return keys[0], keys[4]


def translate_list(tree):
    fn = find_method(tree, "Locale", "list")
    tmpl = ast.parse(
        "def list(self, parts):\n"
        "    _ = self.translate\n"
        "    if len(parts) == 0:\n        return ''\n"
        "    if len(parts) == 1:\n        return parts[0]\n"
        "    comma = ' X ' if self.code.startswith('fa') else ', '\n"
        "    return _('T') % {'commas': comma.join(parts[:-1]), 'last': parts[len(parts) - 1]}\n").body[0]

    def shape(body):
        return re.sub(r"Constant\(value='[^']*'\)", "Constant(value=S)", "".join(ast.dump(b) for b in body))
    body = strip_doc(fn.body)
    if shape(body) != shape(tmpl.body):
        raise Unsupported("Locale.list body shape")
    s = [k.value for n in body for k in ast.walk(n) if isinstance(k, ast.Constant) and isinstance(k.value, str)]
    # order of ast.walk is breadth-first per statement; pick by role instead
    empty = body[1].body[0].value.value
    ife = body[3].value
    fa_comma, prefix, comma = ife.body.value, ife.test.args[0].value, ife.orelse.value
    ret = body[4].value
    template = ret.left.args[0].value
    keys = [k.value for k in ret.right.keys]
    if empty != "" or keys != ["commas", "last"]:
        raise Unsupported("Locale.list constants %r %r" % (empty, keys))
    return template, prefix, fa_comma, comma


GET_CLOSEST_SRC = (
    "def get_closest(cls, *locale_codes):\n"
    "    for code in locale_codes:\n"
    "        if not code:\n            continue\n"
    "        code = code.replace('-', '_')\n"
    "        parts = code.split('_')\n"
    "        if len(parts) > 2:\n            continue\n"
    "        elif len(parts) == 2:\n            code = parts[0].lower() + '_' + parts[1].upper()\n"
    "        if code in _supported_locales:\n            return cls.get(code)\n"
    "        if parts[0].lower() in _supported_locales:\n            return cls.get(parts[0].lower())\n"
    "    return cls.get(_default_locale)\n")


def translate_get_closest(tree, src_text):
    fn = find_method(tree, "Locale", "get_closest")
    want = ast.parse(GET_CLOSEST_SRC).body[0]
    if "".join(ast.dump(b) for b in strip_doc(fn.body)) != "".join(ast.dump(b) for b in want.body):
        raise Unsupported("get_closest differs from the modelled text")
    m = re.search(r'^_default_locale = "([A-Za-z_]+)"$', src_text, re.M)
    if not m or len(re.findall(r"^_default_locale\s*=", src_text, re.M)) != 1:
        raise Unsupported("_default_locale")
    return m.group(1)


def emit(repo, out):
    src_text = open(os.path.join(repo, "tornado/locale.py")).read()
    tree = ast.parse(src_text)
    codes, fbody = translate_friendly(tree)
    skew, rel = translate_format_date(tree)
    chain, full, clock_codes, times = translate_absolute(tree)
    day_dow, day_plain = translate_format_day(tree)
    l_template, l_prefix, l_fa_comma, l_comma = translate_list(tree)
    default_locale = translate_get_closest(tree, src_text)
    txt = ("(* GENERATED by translators/c46_src.py from tornado/locale.py — do not edit *)\n"
           "From Coq Require Import List ZArith NArith Bool String.\nImport ListNotations.\nFrom TV Require Import C46.Model.\n"
           "Local Open Scope Z_scope.\n\n"
           "(* self.code not in (...) *)\nDefinition src_english_codes : list (list N) := [%s].\n\n"
           "(* Locale.friendly_number; en = (self.code in src_english_codes) *)\n"
           "Definition src_friendly_number (en : bool) (value : Z) : option (list N) :=\n%s.\n\n"
           "(* format_date: `(date - now) < datetime.timedelta(seconds=...)` *)\nDefinition src_skew_seconds : Z := %d.\n\n"
           "(* format_date: body of `if relative and days == 0:` -> (singular message, plural suffix after %%(..)d, count) *)\n"
           "Definition src_relative (seconds : Z) : list N * list N * Z :=\n%s.\n\n"
           % ("; ".join(gstr(c) for c in codes), fbody, skew, rel))
    txt += ("(* format_date: the if/elif chain assigning `format` (None = left for `if format is None:`);\n"
            "   same_day = (local_date.day == local_yesterday.day) *)\n"
            "Definition src_format_choice (days : Z) (same_day relative shorter : bool) : option (list N) :=\n%s.\n\n"
            "(* format_date: `if format is None: format = ...` *)\n"
            "Definition src_full_format (shorter : bool) : list N := %s.\n\n"
            "(* format_date: tfhour_clock = self.code not in (...); the three str_time formats and their constants *)\n"
            "Definition src_clock_codes : list (list N) := [%s].\n"
            "Definition src_time_formats : list (list N) := [%s].\n"
            "Definition src_zh_ampm : list (list N) := [%s].\n"
            "Definition src_en_ampm : list (list N) := [%s].\n\n"
            "(* format_day: the two templates (dow / not dow) *)\n"
            "Definition src_day_templates : list (list N) := [%s; %s].\n\n"
            % (chain, full, "; ".join(gstr(c) for c in clock_codes), "; ".join(gstr(f) for f, _ in times),
               "; ".join(glist_codes(c) for c in times[1][1][:2]), "; ".join(gstr(c) for c in times[2][1][:2]),
               gstr(day_dow), gstr(day_plain)))
    txt += ("(* Locale.list; fa = self.code.startswith(%s) *)\n"
            "Definition src_list_prefix : list N := %s.\n"
            "Definition src_locale_list (fa : bool) (parts : list (list N)) : option (list N) :=\n"
            "  if (List.length parts =? 0)%%nat then Some (@nil N)\n"
            "  else if (List.length parts =? 1)%%nat then nth_error parts 0\n"
            "  else let comma := if fa then %s else %s in\n"
            "       bind (nth_error parts (List.length parts - 1)) (fun last_part =>\n"
            "       py_format %s [(codes \"commas\", join comma (firstn (List.length parts - 1) parts)); (codes \"last\", last_part)]).\n\n"
            "(* get_closest has exactly the modelled statement structure; module constant _default_locale *)\n"
            "Definition src_default_locale : list N := %s.\n"
            % (gstr(l_prefix), gstr(l_prefix), glist_codes(l_fa_comma), gstr(l_comma), gstr(l_template), gstr(default_locale)))
    old = open(out).read() if os.path.exists(out) else None
    if old != txt:
        open(out, "w").write(txt)
    return txt


if __name__ == "__main__":
    repo = sys.argv[1] if len(sys.argv) > 1 else "/repo"
    out = sys.argv[2] if len(sys.argv) > 2 else os.path.join(os.path.dirname(os.path.dirname(os.path.abspath(__file__))), "coq/Gen/C46_src.v")
    print(emit(repo, out))
