#!/venv/bin/python
"""Fail-closed translator for C28: reads tornado/web.py from the working tree with `ast` and emits
coq/Gen/C28_src.v — Gallina functions (over coq/C28/SrcLib.v) for

  RequestHandler.redirect(url, permanent, status)          -> src_redirect
  the wrapper inside removeslash / addslash                -> src_removeslash / src_addslash
  the wrapper inside authenticated (+ get_login_url)       -> src_authenticated
  the directory-redirect block of StaticFileHandler.validate_absolute_path -> src_static_dir

Statements are translated in continuation style (what follows an `if` is passed into both branches).
Accepted: `if`/`else`, `x = e`, `x += e`, `return None` after `self.redirect(...)`,
`return method(self, *args, **kwargs)`, `raise HTTPError(<int>, ...)`, the two asserts and the literal
tail of redirect(); expressions: str literals, `+`, the request attributes path/query/uri/method,
`.startswith/.endswith/.rstrip(<literal>)`, `in (<literals>)`, `"<c>" not in x`, `not`, truthiness of a
str, `urllib.parse.urlsplit(x).scheme`, `self.request.full_url()`, `urlencode(dict(next=x))`.
Anything else raises Unsupported, which the check reports as a broken obligation.
Gen/C28_equiv.v proves each emitted function equal to the corresponding function of C28/Model.v."""
import ast
import os
import sys


class Unsupported(Exception):
    pass


def lit(s):
    if not isinstance(s, str) or not all(ord(c) < 128 for c in s):
        raise Unsupported("literal %r" % (s,))
    if not s:
        return "(@nil N)"
    return "[" + ";".join(str(ord(c)) for c in s) + "]"


def is_self_attr(n, *path):
    """n is self.a.b... for the given attribute path"""
    for attr in reversed(path):
        if not (isinstance(n, ast.Attribute) and n.attr == attr):
            return False
        n = n.value
    return isinstance(n, ast.Name) and n.id == "self"


REQ = {"path": "path", "query": "query", "uri": "uri", "method": "method"}


class Ctx:
    def __init__(self, name, texts, bools=()):
        self.name = name
        self.texts = set(texts)      # Python names / request attributes available as text
        self.bools = set(bools)
        self.locals = set()


def str_const(n):
    if isinstance(n, ast.Constant) and isinstance(n.value, str):
        return n.value
    raise Unsupported("expected a str literal: " + ast.dump(n))


def expr(n, cx):
    """a str-valued expression -> Gallina term of type text"""
    if isinstance(n, ast.Constant):
        return lit(str_const(n))
    if isinstance(n, ast.Name):
        if n.id in cx.locals or n.id in cx.texts:
            return n.id
        raise Unsupported("name %s in %s" % (n.id, cx.name))
    if isinstance(n, ast.Attribute):
        for a, v in REQ.items():
            if is_self_attr(n, "request", a):
                if v not in cx.texts:
                    raise Unsupported("request.%s not available in %s" % (a, cx.name))
                return v
        raise Unsupported("attribute: " + ast.unparse(n))
    if isinstance(n, ast.BinOp) and isinstance(n.op, ast.Add):
        return "(%s ++ %s)" % (expr(n.left, cx), expr(n.right, cx))
    if isinstance(n, ast.Call) and not n.keywords:
        f = n.func
        if isinstance(f, ast.Attribute) and f.attr == "rstrip" and len(n.args) == 1:
            return "(str_rstrip %s %s)" % (expr(f.value, cx), lit(str_const(n.args[0])))
        if is_self_attr(f, "request", "full_url") and not n.args:
            if not {"host", "uri"} <= cx.texts:
                raise Unsupported("full_url in " + cx.name)
            return "(full_url host uri)"
    raise Unsupported("expression: " + ast.unparse(n))


def cond(n, cx):
    """a condition -> Gallina term of type bool"""
    if isinstance(n, ast.UnaryOp) and isinstance(n.op, ast.Not):
        return "(negb %s)" % cond(n.operand, cx)
    if isinstance(n, ast.Call) and not n.keywords and isinstance(n.func, ast.Attribute) and len(n.args) == 1 \
            and n.func.attr in ("startswith", "endswith"):
        return "(str_%s %s %s)" % (n.func.attr, expr(n.func.value, cx), lit(str_const(n.args[0])))
    if isinstance(n, ast.Compare) and len(n.ops) == 1 and len(n.comparators) == 1:
        op, right = n.ops[0], n.comparators[0]
        if isinstance(op, ast.In) and isinstance(right, ast.Tuple) and right.elts:
            return "(in_tuple %s [%s])" % (expr(n.left, cx), "; ".join(lit(str_const(e)) for e in right.elts))
        if isinstance(op, ast.NotIn):
            c = str_const(n.left)
            if len(c) != 1:
                raise Unsupported("substring test with %r" % c)
            return "(negb (mem_text %d %s))" % (ord(c), expr(right, cx))
        raise Unsupported("comparison: " + ast.unparse(n))
    if is_self_attr(n, "current_user") and "current_user" in cx.bools:
        return "current_user"
    if is_self_attr(n, "_headers_written") and "headers_written" in cx.bools:
        return "headers_written"
    if isinstance(n, ast.Name) and n.id in cx.bools:
        return n.id
    # urllib.parse.urlsplit(x).scheme  (truthiness)
    if isinstance(n, ast.Attribute) and n.attr == "scheme" and isinstance(n.value, ast.Call):
        c = n.value
        if ast.unparse(c.func) == "urllib.parse.urlsplit" and len(c.args) == 1 and not c.keywords:
            return "(urlsplit_has_scheme %s)" % expr(c.args[0], cx)
    if isinstance(n, (ast.Name, ast.Attribute)):
        return "(truthy %s)" % expr(n, cx)
    raise Unsupported("condition: " + ast.unparse(n))


def http_error_code(call):
    if not (isinstance(call, ast.Call) and isinstance(call.func, ast.Name) and call.func.id == "HTTPError" and call.args
            and not call.keywords):
        raise Unsupported("raise: " + ast.unparse(call))
    c = call.args[0]
    if not (isinstance(c, ast.Constant) and isinstance(c.value, int) and not isinstance(c.value, bool) and 100 <= c.value <= 599):
        raise Unsupported("HTTPError code: " + ast.unparse(call))
    for a in call.args[1:]:
        if not isinstance(a, (ast.Constant, ast.Attribute)):
            raise Unsupported("HTTPError argument: " + ast.unparse(a))
    return c.value


def redirect_call(s, cx):
    """`self.redirect(e[, permanent=True])` -> term"""
    c = s.value
    if not (isinstance(c, ast.Call) and is_self_attr(c.func, "redirect") and len(c.args) == 1):
        return None
    perm = "false"
    for kw in c.keywords:
        if kw.arg == "permanent" and isinstance(kw.value, ast.Constant) and isinstance(kw.value.value, bool):
            perm = "true" if kw.value.value else "false"
        else:
            raise Unsupported("redirect keyword: " + ast.unparse(c))
    return "redirect false %s %s None" % (expr(c.args[0], cx), perm)


def is_return_none(s):
    return isinstance(s, ast.Return) and (s.value is None or (isinstance(s.value, ast.Constant) and s.value.value is None))


REDIRECT_TAIL = ["self.set_status(status)", "self.set_header('Location', utf8(url))", "self.finish()"]


def block(stmts, k, cx):
    """translate a statement list; k = the term for what follows it (None: nothing may follow)"""
    if not stmts:
        if k is None:
            raise Unsupported("control falls off the end in " + cx.name)
        return k
    s, rest = stmts[0], stmts[1:]
    if isinstance(s, ast.Return):
        if rest:
            raise Unsupported("code after return")
        if cx.name != "redirect" and ast.unparse(s) == "return method(self, *args, **kwargs)":
            return "CallHandler"
        raise Unsupported("return: " + ast.unparse(s))
    if isinstance(s, ast.Raise):
        if rest or s.cause is not None:
            raise Unsupported("raise with cause / code after raise")
        if cx.name == "redirect" and ast.unparse(s) == "raise Exception('Cannot redirect after headers have been written')":
            return "HeadersSent"
        return "Status %d" % http_error_code(s.exc)
    if isinstance(s, ast.Expr):
        if cx.name == "redirect":
            if [ast.unparse(x) for x in stmts] == REDIRECT_TAIL and "status" in cx.locals:
                return "emit_location status url"
            raise Unsupported("redirect body: " + ast.unparse(s))
        r = redirect_call(s, cx)
        if r is None or len(rest) != 1 or not is_return_none(rest[0]):
            raise Unsupported("expression statement: " + ast.unparse(s))
        return r
    if isinstance(s, ast.Assert):
        txt = ast.unparse(s)
        if txt == "assert self.request.uri is not None":          # typing aid, uri is always set by the server
            return block(rest, k, cx)
        if cx.name == "redirect" and txt == "assert isinstance(status, int) and 300 <= status <= 399":
            return "if (300 <=? status) && (status <=? 399) then %s else Status 500" % block(rest, k, cx)
        raise Unsupported("assert: " + txt)
    if isinstance(s, ast.Assign):
        if len(s.targets) != 1 or not isinstance(s.targets[0], ast.Name):
            raise Unsupported("assignment: " + ast.unparse(s))
        x = s.targets[0].id
        if cx.name == "authenticated" and ast.unparse(s) == "url = self.get_login_url()":
            cx.locals.add(x)
            return "match login with None => Status 500 | Some url => %s end" % block(rest, k, cx)
        if cx.name == "redirect" and ast.unparse(s) == "status = 301 if permanent else 302":
            cx.locals.add("status")
            return "let status := (if permanent then 301 else 302) in %s" % block(rest, k, cx)
        if x in cx.texts or x in cx.bools:
            raise Unsupported("assignment to parameter " + x)
        e = expr(s.value, cx)
        cx.locals.add(x)
        return "let %s := %s in %s" % (x, e, block(rest, k, cx))
    if isinstance(s, ast.AugAssign):
        if not (isinstance(s.op, ast.Add) and isinstance(s.target, ast.Name) and s.target.id in cx.locals):
            raise Unsupported("augmented assignment: " + ast.unparse(s))
        x = s.target.id
        v = s.value
        # x += "?" + urlencode(dict(next=y))
        if isinstance(v, ast.BinOp) and isinstance(v.op, ast.Add) and isinstance(v.right, ast.Call) \
                and ast.unparse(v.right.func) == "urlencode":
            c = v.right
            if not (len(c.args) == 1 and not c.keywords and isinstance(c.args[0], ast.Call) and ast.unparse(c.args[0].func) == "dict"
                    and not c.args[0].args and len(c.args[0].keywords) == 1 and c.args[0].keywords[0].arg == "next"):
                raise Unsupported("urlencode call: " + ast.unparse(c))
            y = expr(c.args[0].keywords[0].value, cx)
            return ("match urlencode_next %s with None => Status 500 | Some enc => let %s := (%s ++ (%s ++ enc)) in %s end"
                    % (y, x, x, expr(v.left, cx), block(rest, k, cx)))
        return "let %s := (%s ++ %s) in %s" % (x, x, expr(v, cx), block(rest, k, cx))
    if isinstance(s, ast.If):
        # `if status is None: A else: B` on the optional parameter of redirect()
        if cx.name == "redirect" and ast.unparse(s.test) == "status is None" and "status" not in cx.locals:
            saved = set(cx.locals)
            a = block(s.body + rest, k, cx)
            cx.locals = set(saved) | {"status"}
            b = block(s.orelse + rest, k, cx)
            return "match status with None => %s | Some status => %s end" % (a, b)
        c = cond(s.test, cx)
        saved = set(cx.locals)

        def branch(br):
            cx.locals = set(saved)
            if br and isinstance(br[-1], (ast.Return, ast.Raise)):
                return block(br, None, cx)          # what follows the `if` is unreachable from here
            return block(br + rest, k, cx)
        a = branch(s.body)
        b = branch(s.orelse)
        cx.locals = set(saved)
        return "if %s then %s else %s" % (c, a, b)
    raise Unsupported("statement %s in %s" % (type(s).__name__, cx.name))


def strip_doc(body):
    if body and isinstance(body[0], ast.Expr) and isinstance(body[0].value, ast.Constant) and isinstance(body[0].value.value, str):
        return body[1:]
    return body


def find(nodes, kind, name):
    r = [n for n in nodes if isinstance(n, kind) and n.name == name]
    if len(r) != 1:
        raise Unsupported("%s %s not found exactly once" % (kind.__name__, name))
    return r[0]


def wrapper_of(tree, name):
    fn = find(tree.body, ast.FunctionDef, name)
    body = strip_doc(fn.body)
    if len(body) != 2 or not isinstance(body[0], ast.FunctionDef) or ast.unparse(body[1]) != "return wrapper":
        raise Unsupported("shape of decorator " + name)
    w = body[0]
    if w.name != "wrapper" or [ast.unparse(d) for d in w.decorator_list] != ["functools.wraps(method)"]:
        raise Unsupported("wrapper of " + name)
    a = w.args
    if [x.arg for x in a.args] != ["self"] or a.vararg is None or a.vararg.arg != "args" or a.kwarg is None or a.kwarg.arg != "kwargs" \
            or a.kwonlyargs or a.posonlyargs or a.defaults:
        raise Unsupported("signature of wrapper in " + name)
    return strip_doc(w.body)


def translate(src):
    tree = ast.parse(src)
    out = {}
    rh = find(tree.body, ast.ClassDef, "RequestHandler")
    # --- redirect
    rd = find(rh.body, ast.FunctionDef, "redirect")
    if ast.unparse(rd.args) != "self, url: str, permanent: bool=False, status: int | None=None" or rd.decorator_list:
        raise Unsupported("signature of redirect: " + ast.unparse(rd.args))
    cx = Ctx("redirect", texts={"url"}, bools={"permanent", "headers_written"})
    out["redirect"] = block(strip_doc(rd.body), None, cx)
    # --- get_login_url is the plain settings lookup (a missing setting raises)
    gl = find(rh.body, ast.FunctionDef, "get_login_url")
    if [ast.unparse(x) for x in strip_doc(gl.body)] != ["self.require_setting('login_url', '@tornado.web.authenticated')",
                                                       "return self.application.settings['login_url']"]:
        raise Unsupported("get_login_url body")
    # --- slash decorators
    for name in ("removeslash", "addslash"):
        cx = Ctx(name, texts={"method", "path", "query"})
        out[name] = block(wrapper_of(tree, name), None, cx)
    # --- authenticated
    cx = Ctx("authenticated", texts={"method", "host", "uri"}, bools={"current_user"})
    out["authenticated"] = block(wrapper_of(tree, "authenticated"), None, cx)
    # --- the directory block of StaticFileHandler.validate_absolute_path
    sf = find(tree.body, ast.ClassDef, "StaticFileHandler")
    va = find(sf.body, ast.FunctionDef, "validate_absolute_path")
    blocks = [n for n in ast.walk(va) if isinstance(n, ast.If)
              and ast.unparse(n.test) == "os.path.isdir(absolute_path) and self.default_filename is not None"]
    if len(blocks) != 1 or blocks[0].orelse or len(blocks[0].body) != 2 \
            or ast.unparse(blocks[0].body[1]) != "absolute_path = os.path.join(absolute_path, self.default_filename)":
        raise Unsupported("directory block of validate_absolute_path")
    redirects = [n for n in ast.walk(va) if isinstance(n, ast.Call) and is_self_attr(n.func, "redirect")]
    if len(redirects) != 1:
        raise Unsupported("validate_absolute_path must redirect in exactly one place")
    cx = Ctx("static_dir", texts={"path"})
    out["static_dir"] = block([blocks[0].body[0]], "CallHandler", cx)
    return out


SIGS = [
    ("redirect", "(headers_written : bool) (url : text) (permanent : bool) (status : option N)"),
    ("removeslash", "(method path query : text)"),
    ("addslash", "(method path query : text)"),
    ("static_dir", "(path : text)"),
    ("authenticated", "(method : text) (login : option text) (current_user : bool) (host uri : text)"),
]


def emit(repo, out_path):
    src = open(os.path.join(repo, "tornado", "web.py")).read()
    t = translate(src)
    text = ("(* GENERATED by translators/c28_src.py from tornado/web.py — do not edit *)\n"
            "From Coq Require Import List NArith Bool.\nImport ListNotations.\n"
            "From TV Require Import C28.Model C28.SrcLib.\nLocal Open Scope N_scope.\n")
    for name, sig in SIGS:
        text += "Definition src_%s %s : outcome :=\n  %s.\n" % (name, sig, t[name])
    old = open(out_path).read() if os.path.exists(out_path) else None
    if old != text:
        open(out_path, "w").write(text)


if __name__ == "__main__":
    repo = sys.argv[1] if len(sys.argv) > 1 else "/repo"
    for k, v in translate(open(os.path.join(repo, "tornado", "web.py")).read()).items():
        print(k, ":=", v)
