#!/venv/bin/python
"""Fail-closed translator for C44: reads tornado/options.py from the working tree with `ast`
and emits coq/Gen/C44_src.v:

* src_bool_true / src_bool_false : the two word tuples of `_Option._parse_bool`, whose body must have
  exactly the shape  lowered = value.lower(); if lowered in (...): return True;
  if lowered in (...): return False; raise Error(...)
* src_td_abbrev : `_Option._TIMEDELTA_ABBREV_DICT` (a dict literal of str -> str)
* src_dt_formats : `_Option._DATETIME_FORMATS` (a list literal of str) translated directive by directive into
  the regex items of C44/Model.v exactly as CPython's _strptime does (%Y %m %d %H %M %S %a %b, a run of
  blanks -> \\s+, '-' ':' 'T' literals); any other character is Unsupported
* src_float_pattern / src_td_pattern : the two regex source strings
* src_<method> : the normalised source (ast.unparse, docstrings removed) of the methods the hand-written
  model was transcribed from.

Anything that does not match raises Unsupported, which the check reports as a broken obligation.
Gen/C44_equiv.v proves the emitted tables equal to the ones in C44/Model.v (and the unit table equivalent
to Model.unit_factor for EVERY unit text), and the method sources equal to C44/Src.v."""
import ast
import os
import sys


class Unsupported(Exception):
    pass


METHODS = [("_Option", "parse"), ("_Option", "set"), ("_Option", "value"), ("_Option", "_parse_datetime"),
           ("_Option", "_parse_timedelta"), ("_Option", "_parse_bool"), ("_Option", "_parse_string"),
           ("OptionParser", "_normalize_name"), ("OptionParser", "__setattr__"), ("OptionParser", "__setitem__"),
           ("OptionParser", "parse_command_line"), ("OptionParser", "parse_config_file")]


def find_class(tree, name):
    cs = [n for n in tree.body if isinstance(n, ast.ClassDef) and n.name == name]
    if len(cs) != 1:
        raise Unsupported("class %s not found exactly once" % name)
    return cs[0]


def find_method(cls, name):
    fs = [n for n in cls.body if isinstance(n, ast.FunctionDef) and n.name == name]
    if len(fs) != 1:
        raise Unsupported("method %s.%s not found exactly once" % (cls.name, name))
    return fs[0]


def class_assign(cls, name):
    vs = []
    for n in cls.body:
        if isinstance(n, ast.Assign) and len(n.targets) == 1 and isinstance(n.targets[0], ast.Name) and n.targets[0].id == name:
            vs.append(n.value)
        if isinstance(n, ast.AnnAssign) and isinstance(n.target, ast.Name) and n.target.id == name:
            vs.append(n.value)
    if len(vs) != 1:
        raise Unsupported("%s.%s not assigned exactly once" % (cls.name, name))
    return vs[0]


def const_str(n):
    if isinstance(n, ast.Constant) and isinstance(n.value, str):
        if not all(32 <= ord(c) < 127 for c in n.value):
            raise Unsupported("non-ASCII string literal %r" % n.value)
        return n.value
    raise Unsupported("string literal expected: " + ast.dump(n))


def gtext(s):
    return "(@nil N)" if not s else "[" + ";".join(str(ord(c)) for c in s) + "]%N"


def glist(items, ty):
    return "(@nil %s)" % ty if not items else "[" + "; ".join(items) + "]"


def body_without_doc(fn):
    b = fn.body
    if b and isinstance(b[0], ast.Expr) and isinstance(b[0].value, ast.Constant) and isinstance(b[0].value.value, str):
        b = b[1:]
    return b


def bool_tables(fn):
    if [a.arg for a in fn.args.args] != ["self", "value"] or fn.args.vararg or fn.args.kwarg or fn.args.kwonlyargs or fn.args.defaults:
        raise Unsupported("_parse_bool signature")
    b = body_without_doc(fn)
    if len(b) != 4:
        raise Unsupported("_parse_bool: expected 4 statements, got %d" % len(b))
    s0 = b[0]
    ok = (isinstance(s0, ast.Assign) and len(s0.targets) == 1 and isinstance(s0.targets[0], ast.Name) and s0.targets[0].id == "lowered"
          and isinstance(s0.value, ast.Call) and isinstance(s0.value.func, ast.Attribute) and s0.value.func.attr == "lower"
          and isinstance(s0.value.func.value, ast.Name) and s0.value.func.value.id == "value" and not s0.value.args and not s0.value.keywords)
    if not ok:
        raise Unsupported("_parse_bool: first statement must be `lowered = value.lower()`")

    def table(st, result):
        if not (isinstance(st, ast.If) and not st.orelse and len(st.body) == 1 and isinstance(st.body[0], ast.Return)
                and isinstance(st.body[0].value, ast.Constant) and st.body[0].value.value is result):
            raise Unsupported("_parse_bool: expected `if lowered in (...): return %r`" % result)
        t = st.test
        if not (isinstance(t, ast.Compare) and isinstance(t.left, ast.Name) and t.left.id == "lowered" and len(t.ops) == 1
                and isinstance(t.ops[0], ast.In) and isinstance(t.comparators[0], (ast.Tuple, ast.List))):
            raise Unsupported("_parse_bool: test must be `lowered in (<literals>)`")
        return [const_str(e) for e in t.comparators[0].elts]
    tw, fw = table(b[1], True), table(b[2], False)
    r = b[3]
    if not (isinstance(r, ast.Raise) and isinstance(r.exc, ast.Call) and isinstance(r.exc.func, ast.Name) and r.exc.func.id == "Error"):
        raise Unsupported("_parse_bool: last statement must raise Error(...)")
    return tw, fw


def abbrev_table(node):
    if not isinstance(node, ast.Dict):
        raise Unsupported("_TIMEDELTA_ABBREV_DICT must be a dict literal")
    out = []
    for k, v in zip(node.keys, node.values):
        if k is None:
            raise Unsupported("dict unpacking")
        out.append((const_str(k), const_str(v)))
    if len({k for k, _ in out}) != len(out):
        raise Unsupported("duplicate keys in _TIMEDELTA_ABBREV_DICT")
    return out


DIRECTIVES = {"Y": "f_Y", "m": "f_m", "d": "f_d", "H": "f_H", "M": "f_M", "S": "f_S", "a": "f_a", "b": "f_b"}
LITERALS = {"-": "dash", ":": "colon", "T": "f_T"}


def format_items(fmt):
    items, i = [], 0
    while i < len(fmt):
        c = fmt[i]
        if c == "%":
            if i + 1 >= len(fmt) or fmt[i + 1] not in DIRECTIVES:
                raise Unsupported("strptime directive %r in %r" % (fmt[i:i + 2], fmt))
            items.append(DIRECTIVES[fmt[i + 1]])
            i += 2
        elif c == " ":
            while i < len(fmt) and fmt[i] == " ":
                i += 1
            items.append("IWs")
        elif c in LITERALS:
            items.append(LITERALS[c])
            i += 1
        else:
            raise Unsupported("literal %r in datetime format %r" % (c, fmt))
    return items


def formats(node):
    if not isinstance(node, ast.List):
        raise Unsupported("_DATETIME_FORMATS must be a list literal")
    return [format_items(const_str(e)) for e in node.elts]


def method_source(fn):
    fn2 = ast.FunctionDef(name=fn.name, args=fn.args, body=body_without_doc(fn) or [ast.Pass()], decorator_list=fn.decorator_list,
                          returns=fn.returns, type_comment=None, lineno=fn.lineno, col_offset=0)
    try:
        fn2.type_params = getattr(fn, "type_params", [])
    except Exception:
        pass
    text = ast.unparse(ast.fix_missing_locations(fn2))
    if not all(c == "\n" or 32 <= ord(c) < 127 for c in text):
        raise Unsupported("non-ASCII source in %s" % fn.name)
    return text


def coq_string(text):
    return '"' + text.replace('"', '""') + '"%string'


def extract(src):
    tree = ast.parse(src)
    opt, parser = find_class(tree, "_Option"), find_class(tree, "OptionParser")
    tw, fw = bool_tables(find_method(opt, "_parse_bool"))
    ab = abbrev_table(class_assign(opt, "_TIMEDELTA_ABBREV_DICT"))
    fm = formats(class_assign(opt, "_DATETIME_FORMATS"))
    fp = const_str(class_assign(opt, "_FLOAT_PATTERN"))
    tp = class_assign(opt, "_TIMEDELTA_PATTERN")
    tp_text = ast.unparse(tp)
    srcs = {}
    for cname, m in METHODS:
        srcs[m] = method_source(find_method(opt if cname == "_Option" else parser, m))
    return tw, fw, ab, fm, fp, tp_text, srcs


def ident(m):
    return "src_" + m.strip("_")


def render(src, prefix="src"):
    tw, fw, ab, fm, fp, tp_text, srcs = extract(src)
    p = prefix
    out = ["From Coq Require Import List NArith String.", "Import ListNotations.", "From TV Require Import C44.Model.",
           "Definition %s_bool_true : list text := %s." % (p, glist([gtext(w) for w in tw], "text")),
           "Definition %s_bool_false : list text := %s." % (p, glist([gtext(w) for w in fw], "text")),
           "Definition %s_td_abbrev : list (text * text) := %s." % (p, glist(["(%s, %s)" % (gtext(k), gtext(v)) for k, v in ab], "(text * text)")),
           "Definition %s_dt_formats : list (list item) :=\n  %s." % (p, glist(["\n   " + glist(f, "item") for f in fm], "(list item)")),
           "Definition %s_float_pattern : string := %s." % (p, coq_string(fp)),
           "Definition %s_td_pattern : string := %s." % (p, coq_string(tp_text))]
    for _, m in METHODS:
        out.append("Definition %s_%s : string :=\n%s." % (p, m.strip("_"), coq_string(srcs[m])))
    return "\n".join(out) + "\n"


def emit(repo, out_path):
    src = open(os.path.join(repo, "tornado", "options.py")).read()
    text = "(* GENERATED by translators/c44_src.py from tornado/options.py — do not edit *)\n" + render(src)
    old = open(out_path).read() if os.path.exists(out_path) else None
    if old != text:
        open(out_path, "w").write(text)


if __name__ == "__main__":
    repo = sys.argv[1] if len(sys.argv) > 1 else "/repo"
    sys.stdout.write(render(open(os.path.join(repo, "tornado", "options.py")).read(), sys.argv[2] if len(sys.argv) > 2 else "src"))
