#!/venv/bin/python
"""Fail-closed translator for C48: reads tornado/auth.py from the working tree with `ast` and emits
coq/Gen/C48_src.v:

  src_escape                      -- the body of _oauth_escape as a term of coq/C48/Ast.v
  src_key10, src_key10_sep        -- key_elems / b"&".join(key_elems) of _oauth_signature
  src_key10a, src_key10a_sep      -- the same statements of _oauth10a_signature
  src_rest_signature, src_rest_signature10a
                                  -- the two signature functions WITHOUT those key statements, as text
                                     (normalised by ast.unparse; docstrings and comments dropped)
  src_normalized_netloc, src_normalized_parameters, src_request_parameters
                                  -- these functions as text

Only the expression shapes handled below are accepted; anything else raises Unsupported (the check
then reports a broken obligation).  Gen/C48_equiv.v proves the emitted trees mean esc / key_10 /
key_10a of C48/Model.v and the texts equal the ones the model was written from (C48/SrcText.v)."""
import ast
import os
import sys


class Unsupported(Exception):
    pass


def gtext(s):
    if not isinstance(s, str):
        raise Unsupported("string constant expected: %r" % (s,))
    if any(ord(c) >= 128 for c in s):
        raise Unsupported("non-ASCII constant %r" % (s,))
    if not s:
        return "(@nil N)"
    return "[" + ";".join(str(ord(c)) for c in s) + "]%N"


def dotted(n):
    try:
        return ast.unparse(n)
    except Exception:
        raise Unsupported("callee")


def secret(n):
    if (isinstance(n, ast.Subscript) and isinstance(n.value, ast.Name) and isinstance(n.ctx, ast.Load)
            and isinstance(n.slice, ast.Constant) and n.slice.value == "secret" and type(n.slice.value) is str):
        if n.value.id == "consumer_token":
            return "(ESecret Consumer)"
        if n.value.id == "token":
            return "(ESecret Token)"
    return None


def expr(n, names):
    """names: dict of local names that may be read -> Gallina term"""
    if isinstance(n, ast.Name) and isinstance(n.ctx, ast.Load) and n.id in names:
        return names[n.id]
    s = secret(n)
    if s:
        return s
    if isinstance(n, ast.Constant) and n.value == "" and type(n.value) is str:
        return "EEmpty"
    if isinstance(n, ast.IfExp):
        if not (isinstance(n.test, ast.Name) and n.test.id == "token"):
            raise Unsupported("conditional on " + ast.unparse(n.test))
        return "(EIfToken %s %s)" % (expr(n.body, names), expr(n.orelse, names))
    if isinstance(n, ast.Call):
        callee = dotted(n.func)
        if callee == "escape.utf8" and len(n.args) == 1 and not n.keywords:
            return "(EUtf8 %s)" % expr(n.args[0], names)
        if callee == "_oauth_escape" and len(n.args) == 1 and not n.keywords:
            return "(EEscape %s)" % expr(n.args[0], names)
        if callee == "urllib.parse.quote" and len(n.args) == 1:
            safe = "/"            # the documented default of urllib.parse.quote
            for kw in n.keywords:
                if kw.arg != "safe" or not (isinstance(kw.value, ast.Constant) and type(kw.value.value) is str):
                    raise Unsupported("quote() keyword: " + ast.unparse(n))
                safe = kw.value.value
            if len(n.keywords) > 1:
                raise Unsupported("quote() keywords: " + ast.unparse(n))
            return "(EQuote %s %s)" % (expr(n.args[0], names), gtext(safe))
    raise Unsupported("expression: " + ast.unparse(n))


def strip_doc(fn):
    b = fn.body
    if b and isinstance(b[0], ast.Expr) and isinstance(b[0].value, ast.Constant) and isinstance(b[0].value.value, str):
        fn.body = b[1:]
    return fn


def plain_function(tree_body, name, argnames):
    fns = [n for n in tree_body if isinstance(n, (ast.FunctionDef, ast.AsyncFunctionDef)) and n.name == name]
    if len(fns) != 1 or not isinstance(fns[0], ast.FunctionDef):
        raise Unsupported("%s not found exactly once as a plain function" % name)
    fn = fns[0]
    a = fn.args
    if [x.arg for x in a.args] != argnames or a.vararg or a.kwarg or a.kwonlyargs or a.posonlyargs:
        raise Unsupported("signature of " + name)
    if fn.decorator_list:
        raise Unsupported("decorators on " + name)
    return strip_doc(fn)


def translate_escape(fn):
    body = list(fn.body)
    names = {"val": "EVal"}
    if len(body) == 2:
        s = body[0]
        want = "if isinstance(val, unicode_type):\n    val = val.encode('utf-8')"
        if ast.unparse(s) != want:
            raise Unsupported("_oauth_escape: first statement: " + ast.unparse(s))
        names = {"val": "(EUtf8 EVal)"}
        body = body[1:]
    if len(body) != 1 or not isinstance(body[0], ast.Return) or body[0].value is None:
        raise Unsupported("_oauth_escape: body shape")
    return expr(body[0].value, names)


def translate_key(fn):
    """-> (elems term, sep term, function text without the key statements)"""
    body = fn.body
    idx = [i for i, s in enumerate(body)
           if isinstance(s, ast.Assign) and len(s.targets) == 1 and isinstance(s.targets[0], ast.Name)
           and s.targets[0].id == "key_elems"]
    if len(idx) != 1:
        raise Unsupported(fn.name + ": key_elems must be assigned exactly once")
    i = idx[0]
    lst = body[i].value
    if not isinstance(lst, ast.List) or not lst.elts:
        raise Unsupported(fn.name + ": key_elems = [...] expected")
    elems = [expr(e, {}) for e in lst.elts]
    j = i + 1
    while j < len(body):
        s = body[j]
        if (isinstance(s, ast.Expr) and isinstance(s.value, ast.Call) and ast.unparse(s.value.func) == "key_elems.append"
                and len(s.value.args) == 1 and not s.value.keywords):
            elems.append(expr(s.value.args[0], {}))
            j += 1
        else:
            break
    if j >= len(body):
        raise Unsupported(fn.name + ": key = sep.join(key_elems) expected")
    s = body[j]
    ok = (isinstance(s, ast.Assign) and len(s.targets) == 1 and isinstance(s.targets[0], ast.Name) and s.targets[0].id == "key"
          and isinstance(s.value, ast.Call) and isinstance(s.value.func, ast.Attribute) and s.value.func.attr == "join"
          and isinstance(s.value.func.value, ast.Constant) and type(s.value.func.value.value) is bytes
          and len(s.value.func.value.value) == 1 and len(s.value.args) == 1 and not s.value.keywords
          and isinstance(s.value.args[0], ast.Name) and s.value.args[0].id == "key_elems")
    if not ok:
        raise Unsupported(fn.name + ": key = b\"?\".join(key_elems) expected, got " + ast.unparse(s))
    sep = "%d%%N" % s.value.func.value.value[0]
    # nothing else may mention key_elems, or assign key
    rest = body[:i] + body[j + 1:]
    for st in rest:
        for n in ast.walk(st):
            if isinstance(n, ast.Name) and (n.id == "key_elems" or (n.id == "key" and isinstance(n.ctx, ast.Store))):
                raise Unsupported(fn.name + ": other use of key_elems / assignment of key")
    fn.body = rest
    return "[" + "; ".join(elems) + "]", sep, text_of(fn)


def text_of(fn):
    text = ast.unparse(fn)
    if not all(c == "\n" or 32 <= ord(c) < 127 for c in text):
        raise Unsupported("non-ASCII text in " + fn.name)
    return text


def coq_string(text):
    return '"' + text.replace('"', '""') + '"'


SIG_ARGS = ["consumer_token", "method", "url", "parameters", "token"]


def translate(src):
    tree = ast.parse(src)
    out = {}
    out["src_escape"] = ("sexp", translate_escape(plain_function(tree.body, "_oauth_escape", ["val"])))
    k, sep, rest = translate_key(plain_function(tree.body, "_oauth_signature", SIG_ARGS))
    out["src_key10"], out["src_key10_sep"], out["src_rest_signature"] = ("list sexp", k), ("N", sep), ("string", rest)
    k, sep, rest = translate_key(plain_function(tree.body, "_oauth10a_signature", SIG_ARGS))
    out["src_key10a"], out["src_key10a_sep"], out["src_rest_signature10a"] = ("list sexp", k), ("N", sep), ("string", rest)
    out["src_normalized_netloc"] = ("string", text_of(plain_function(tree.body, "_oauth_normalized_netloc", ["scheme", "netloc"])))
    out["src_normalized_parameters"] = ("string", text_of(plain_function(tree.body, "_oauth_normalized_parameters", ["parameters"])))
    cls = [n for n in tree.body if isinstance(n, ast.ClassDef) and n.name == "OAuthMixin"]
    if len(cls) != 1:
        raise Unsupported("class OAuthMixin not found")
    out["src_request_parameters"] = ("string", text_of(plain_function(
        cls[0].body, "_oauth_request_parameters", ["self", "url", "access_token", "parameters", "method"])))
    # exactly one definition of each helper in the module, and nothing rebinding them at module level
    for n in tree.body:
        if isinstance(n, (ast.Assign, ast.AugAssign, ast.AnnAssign)):
            for t in ast.walk(n):
                if isinstance(t, ast.Name) and isinstance(t.ctx, ast.Store) and t.id.startswith("_oauth"):
                    raise Unsupported("module-level rebinding of " + t.id)
    return out


def render(out):
    text = ("(* GENERATED by translators/c48_src.py from tornado/auth.py -- do not edit *)\n"
            "From Coq Require Import List NArith String.\nImport ListNotations.\nFrom TV Require Import C48.Model C48.Ast.\n")
    for name, (ty, term) in out.items():
        if ty == "string":
            text += "Definition %s : string :=\n%s%%string.\n" % (name, coq_string(term))
        else:
            text += "Definition %s : %s :=\n  %s.\n" % (name, ty, term)
    return text


def emit(repo, out_path):
    src = open(os.path.join(repo, "tornado", "auth.py")).read()
    text = render(translate(src))
    old = open(out_path).read() if os.path.exists(out_path) else None
    if old != text:
        open(out_path, "w").write(text)


if __name__ == "__main__":
    repo = sys.argv[1] if len(sys.argv) > 1 else "/repo"
    print(render(translate(open(os.path.join(repo, "tornado", "auth.py")).read())))
