#!/venv/bin/python
"""Fail-closed translator for C08: reads tornado/http1connection.py with `ast` and emits
coq/Gen/C08_src.v, a description (`src_desc : framing_desc`, coq/C08/Desc.v) of the framing
rules of

  is_transfer_encoding_chunked(headers)            which headers, which token, what is refused
  HTTP1Connection._read_body(code, headers, ...)   Content-Length folding / parsing / limit,
                                                   the no-body status (204) rule, the dispatch order
  HTTP1Connection._read_body_until_close           the size check of a close-delimited body

Each function body (docstring removed, HTTPInputError messages ignored) must match, statement by
statement, the template below; the holes are the header names, the token, the comparison
operators, the status code and the set of lengths a no-body status may announce.  Anything else
raises Unsupported: the check then reports a broken obligation.  Gen/C08_equiv.v proves that the
emitted description means exactly C08.Model.body_plan / the close-delimited size check."""
import ast
import os
import re
import sys


class Unsupported(Exception):
    pass


OPS = {">": "OpGt", ">=": "OpGe", "<": "OpLt", "<=": "OpLe", "==": "OpEq", "!=": "OpNe"}
OP_RE = r"(>=|<=|==|!=|>|<)"
STR_RE = r"'([A-Za-z0-9\-]+)'"

T_TE = """if {TE} not in headers:
    return False
if {CL} in headers:
    raise httputil.HTTPInputError()
if headers[{TE}].lower() == {TOK}:
    return True
raise httputil.HTTPInputError()"""

T_READ_BODY = """if {CL} in headers:
    if ',' in headers[{CL}]:
        pieces = re.split(',\\\\s*', headers[{CL}])
        if any((i != pieces[0] for i in pieces)):
            raise httputil.HTTPInputError()
        headers[{CL}] = pieces[0]
    try:
        content_length: int | None = parse_int(headers[{CL}])
    except ValueError:
        raise httputil.HTTPInputError()
    if cast(int, content_length) {OP} self._max_body_size:
        raise httputil.HTTPInputError()
else:
    content_length = None
is_chunked = is_transfer_encoding_chunked(headers)
if code == {CODE}:
    if is_chunked or content_length not in {OKSET}:
        raise httputil.HTTPInputError()
    content_length = 0
if is_chunked:
    return self._read_chunked_body(delegate)
if content_length is not None:
    return self._read_fixed_body(content_length, delegate)
if self.is_client:
    return self._read_body_until_close(delegate)
return None"""

T_CLOSE = """body = await self.stream.read_until_close()
if len(body) {OP} self._max_body_size:
    raise httputil.HTTPInputError()
if not self._write_finished or self.is_client:
    with _ExceptionLoggingContext(app_log):
        ret = delegate.data_received(body)
        if ret is not None:
            await ret"""


class _DropMessages(ast.NodeTransformer):
    def visit_Raise(self, node):
        e = node.exc
        if (isinstance(e, ast.Call) and isinstance(e.func, ast.Attribute) and e.func.attr == "HTTPInputError"
                and isinstance(e.func.value, ast.Name) and e.func.value.id == "httputil" and node.cause is None):
            e.args, e.keywords = [], []
        return node


def body_text(fn):
    body = fn.body
    if body and isinstance(body[0], ast.Expr) and isinstance(body[0].value, ast.Constant) and isinstance(body[0].value.value, str):
        body = body[1:]
    if fn.decorator_list:
        raise Unsupported("decorators on " + fn.name)
    return "\n".join(ast.unparse(_DropMessages().visit(s)) for s in body)


def match(template, text, what):
    """template with {NAME} holes -> dict of captured values (a repeated hole must repeat its value)."""
    seen, pat, pos = {}, "", 0
    for m in re.finditer(r"\{([A-Z]+)\}", template):
        pat += re.escape(template[pos:m.start()])
        name = m.group(1)
        if name in seen:
            pat += "(?P=%s)" % name
        else:
            seen[name] = True
            inner = {"OP": OP_RE[1:-1], "CODE": r"[0-9]{3}", "OKSET": r"\((?:None|[0-9]+)(?:, (?:None|[0-9]+))*,?\)"}.get(name, STR_RE.replace("(", "(?:", 1))
            pat += "(?P<%s>%s)" % (name, inner)
        pos = m.end()
    pat += re.escape(template[pos:])
    m = re.fullmatch(pat, text)
    if not m:
        raise Unsupported("%s does not have the expected shape:\n%s" % (what, text))
    return m.groupdict()


def find(tree, cls, name):
    scope = tree.body
    if cls:
        cs = [n for n in tree.body if isinstance(n, ast.ClassDef) and n.name == cls]
        if len(cs) != 1:
            raise Unsupported("class " + cls)
        scope = cs[0].body
    fs = [n for n in scope if isinstance(n, (ast.FunctionDef, ast.AsyncFunctionDef)) and n.name == name]
    if len(fs) != 1:
        raise Unsupported("function " + name)
    return fs[0]


def gbytes(s):
    s = s.strip("'")
    return "[" + ";".join(str(ord(c)) for c in s) + "]%N"


def translate(src):
    tree = ast.parse(src)
    te_fn = find(tree, None, "is_transfer_encoding_chunked")
    rb_fn = find(tree, "HTTP1Connection", "_read_body")
    cl_fn = find(tree, "HTTP1Connection", "_read_body_until_close")
    if [a.arg for a in te_fn.args.args] != ["headers"] or [a.arg for a in rb_fn.args.args] != ["self", "code", "headers", "delegate"]:
        raise Unsupported("signatures")
    if not isinstance(cl_fn, ast.AsyncFunctionDef) or isinstance(rb_fn, ast.AsyncFunctionDef):
        raise Unsupported("sync/async kinds")
    te = match(T_TE, body_text(te_fn), "is_transfer_encoding_chunked")
    rb = match(T_READ_BODY, body_text(rb_fn), "_read_body")
    cl = match(T_CLOSE, body_text(cl_fn), "_read_body_until_close")
    # the only callers of the helpers must be the modelled ones
    calls = [ast.unparse(n) for n in ast.walk(tree) if isinstance(n, ast.Call) and isinstance(n.func, ast.Name)
             and n.func.id == "is_transfer_encoding_chunked"]
    if sorted(calls) != ["is_transfer_encoding_chunked(headers)"] * 2:
        raise Unsupported("callers of is_transfer_encoding_chunked: %r" % (calls,))
    okset = []
    for tok in rb["OKSET"].strip("()").split(","):
        tok = tok.strip()
        if tok:
            okset.append("None" if tok == "None" else "Some %s%%N" % int(tok))
    return ("{| k_cl := %s; k_te := %s; k_te_cl := %s; tok_chunked := %s; limit_op := %s;\n"
            "     nobody_code := %d%%N; nobody_ok := [%s]; close_op := %s |}"
            % (gbytes(rb["CL"]), gbytes(te["TE"]), gbytes(te["CL"]), gbytes(te["TOK"]), OPS[rb["OP"]],
               int(rb["CODE"]), "; ".join(okset), OPS[cl["OP"]]))


def emit(repo, out_path):
    src = open(os.path.join(repo, "tornado", "http1connection.py")).read()
    term = translate(src)
    text = ("(* GENERATED by translators/c08_src.py from tornado/http1connection.py (is_transfer_encoding_chunked,\n"
            "   HTTP1Connection._read_body, _read_body_until_close) — do not edit *)\n"
            "From Coq Require Import List NArith.\nImport ListNotations.\nFrom TV Require Import C08.Desc.\n"
            "Definition src_desc : framing_desc :=\n  %s.\n" % term)
    old = open(out_path).read() if os.path.exists(out_path) else None
    if old != text:
        open(out_path, "w").write(text)


if __name__ == "__main__":
    repo = sys.argv[1] if len(sys.argv) > 1 else "/repo"
    print(translate(open(os.path.join(repo, "tornado", "http1connection.py")).read()))
