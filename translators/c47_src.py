#!/venv/bin/python
"""Fail-closed translator for C47: reads tornado/wsgi.py with the `ast` module and emits
coq/Gen/C47_src.v:

  src_split_host     -- the host/port statements at the top of WSGIContainer.environ, compiled
                        statement by statement (tuple assignment from rpartition, the guarded if/else,
                        the `port is None` default)
  src_fixed          -- the dict literal: keys in order, each value classified by its expression
  src_content        -- the `if "X" in request.headers: environ["Y"] = request.headers.pop("X")` statements
  src_cgi_key        -- the key expression of the final loop over request.headers.items()
  src_path_bytes     -- the codecs tried by _path_bytes, in order
  src_self_attrs     -- every attribute of `self` that environ reads (it may only READ self.executor:
                        any other use of `self` -- a cache, a counter -- is refused)

Only the statement / expression shapes handled below are accepted; anything else raises Unsupported
(the check then reports a broken obligation).  The primitives used by the output (rpartition1,
nonempty, is_empty, ascii_decimal, int_digits, py_upper, py_replace1, vsrc, codec) are in coq/C47/Model.v."""
import ast
import os
import sys


class Unsupported(Exception):
    pass


def find_method(tree, cls, name):
    cs = [n for n in tree.body if isinstance(n, ast.ClassDef) and n.name == cls]
    if len(cs) != 1:
        raise Unsupported("class %s" % cls)
    fs = [n for n in cs[0].body if isinstance(n, ast.FunctionDef) and n.name == name]
    if len(fs) != 1:
        raise Unsupported("method %s.%s" % (cls, name))
    return fs[0]


def strip_doc(body):
    if body and isinstance(body[0], ast.Expr) and isinstance(body[0].value, ast.Constant) and isinstance(body[0].value.value, str):
        return body[1:]
    return body


def same(node, src, mode="eval"):
    want = ast.parse(src, mode=mode)
    want = want.body if mode == "eval" else want.body[0]
    return ast.dump(node) == ast.dump(want)


def gstring(s):
    if not isinstance(s, str) or not all(32 <= ord(c) < 127 and c != '"' for c in s):
        raise Unsupported("string constant %r" % (s,))
    return '"%s"%%string' % s


def char_const(node):
    if isinstance(node, ast.Constant) and isinstance(node.value, str) and len(node.value) == 1 and ord(node.value) < 128:
        return ord(node.value)
    raise Unsupported("one-character ASCII constant expected: " + ast.dump(node))


# ------------------------------------------------------------------ host / port
class Split:
    """env maps Python names to types: 'str', 'sep' (the middle result of rpartition: "" or the
    separator, modelled as bool), 'optint' (int or None)."""

    def name(self, e, env, ty):
        if isinstance(e, ast.Name) and isinstance(e.ctx, ast.Load) and env.get(e.id) == ty:
            return e.id
        raise Unsupported("%s variable expected: %s" % (ty, ast.dump(e)))

    def test(self, e, env):
        """a condition -> Gallina bool"""
        if isinstance(e, ast.BoolOp):
            vals = list(e.values)
            if (isinstance(e.op, ast.And) and len(vals) == 2
                    and all(isinstance(v, ast.Call) and isinstance(v.func, ast.Attribute) and not v.args and not v.keywords
                            and isinstance(v.func.value, ast.Name) for v in vals)
                    and [v.func.attr for v in vals] == ["isascii", "isdecimal"]
                    and vals[0].func.value.id == vals[1].func.value.id):
                return "(ascii_decimal %s)" % self.name(vals[0].func.value, env, "str")
            op = " && " if isinstance(e.op, ast.And) else " || " if isinstance(e.op, ast.Or) else None
            if op is None:
                raise Unsupported("boolean operator")
            return "(" + op.join(self.test(v, env) for v in vals) + ")"
        if isinstance(e, ast.Name):
            if env.get(e.id) == "sep":
                return e.id
            if env.get(e.id) == "str":
                return "(nonempty %s)" % e.id
            raise Unsupported("truth value of " + e.id)
        if isinstance(e, ast.Compare) and len(e.ops) == 1 and len(e.comparators) == 1:
            l, op, r = e.left, e.ops[0], e.comparators[0]
            if (isinstance(op, ast.LtE) and isinstance(l, ast.Call) and isinstance(l.func, ast.Name) and l.func.id == "len"
                    and len(l.args) == 1 and not l.keywords and isinstance(r, ast.Constant) and type(r.value) is int and 0 <= r.value < 100):
                return "(Nat.leb (List.length %s) %d)" % (self.name(l.args[0], env, "str"), r.value)
            if isinstance(op, ast.Eq) and isinstance(r, ast.Constant) and r.value == "":
                return "(is_empty %s)" % self.name(l, env, "str")
            if isinstance(op, ast.Eq) and same(l, "request.protocol") and isinstance(r, ast.Constant) and r.value == "https":
                return "req_https"
        raise Unsupported("condition: " + ast.dump(e))

    def port_expr(self, e, env):
        """expression assigned to `port` -> Gallina term of type option N + env_exn"""
        if isinstance(e, ast.Constant) and e.value is None:
            return "(inl None)"
        if isinstance(e, ast.IfExp):
            c = self.test(e.test, env)
            return "(if %s then %s else %s)" % (c, self.port_expr(e.body, env), self.port_expr(e.orelse, env))
        if (isinstance(e, ast.Call) and isinstance(e.func, ast.Name) and e.func.id == "int" and len(e.args) == 1 and not e.keywords):
            x = self.name(e.args[0], env, "str")
            # int() of a string the guard has shown to be ASCII decimal digits (Gen/C47_equiv.v: never the error branch)
            return "(match int_digits %s with Some p => inl (Some p) | None => inr EValueError end)" % x
        raise Unsupported("port expression: " + ast.dump(e))

    def branch(self, body, env):
        """assignments to host / port only -> term of type (text * option N) + env_exn"""
        host, port = "host", None
        for st in body:
            if not (isinstance(st, ast.Assign) and len(st.targets) == 1 and isinstance(st.targets[0], ast.Name)):
                raise Unsupported("statement in branch: " + ast.dump(st))
            n = st.targets[0].id
            if n == "host":
                if not same(st.value, "request.host"):
                    raise Unsupported("host = " + ast.dump(st.value))
                host = "req_host"
            elif n == "port":
                port = self.port_expr(st.value, env)
            else:
                raise Unsupported("assignment to " + n)
        if port is None:
            raise Unsupported("branch does not assign port")
        return "(match %s with inl port => inl (%s, port) | inr e => inr e end)" % (port, host)

    def compile(self, stmts):
        if len(stmts) != 3:
            raise Unsupported("host/port block: %d statements" % len(stmts))
        s1, s2, s3 = stmts
        if not (isinstance(s1, ast.Assign) and len(s1.targets) == 1 and isinstance(s1.targets[0], ast.Tuple)
                and [getattr(x, "id", None) for x in s1.targets[0].elts] == ["host", "sep", "port_str"]
                and isinstance(s1.value, ast.Call) and isinstance(s1.value.func, ast.Attribute)
                and s1.value.func.attr == "rpartition" and same(s1.value.func.value, "request.host")
                and len(s1.value.args) == 1 and not s1.value.keywords):
            raise Unsupported("first statement: " + ast.dump(s1))
        sepc = char_const(s1.value.args[0])
        env = {"host": "str", "sep": "sep", "port_str": "str"}
        if not (isinstance(s2, ast.If) and s2.orelse):
            raise Unsupported("second statement")
        cond = self.test(s2.test, env)
        b1, b2 = self.branch(s2.body, env), self.branch(s2.orelse, env)
        if not (isinstance(s3, ast.If) and not s3.orelse and same(s3.test, "port is None") and len(s3.body) == 1
                and isinstance(s3.body[0], ast.Assign) and len(s3.body[0].targets) == 1
                and getattr(s3.body[0].targets[0], "id", None) == "port" and isinstance(s3.body[0].value, ast.IfExp)):
            raise Unsupported("third statement")
        d = s3.body[0].value
        ints = []
        for x in (d.body, d.orelse):
            if not (isinstance(x, ast.Constant) and type(x.value) is int and 0 <= x.value < 65536):
                raise Unsupported("default port constant")
            ints.append(x.value)
        default = "(if %s then %d else %d)" % (self.test(d.test, env), ints[0], ints[1])
        return ("  let '(host, sep, port_str) := rpartition1 %d req_host in\n"
                "  match (if %s\n         then %s\n         else %s) with\n"
                "  | inr e => inr e\n"
                "  | inl (host, port) =>\n"
                "      let port := match port with None => %s | Some p => p end in\n"
                "      inl (host, port)\n  end" % (sepc, cond, b1, b2, default))


# ------------------------------------------------------------------ dict literal
VALUE_SHAPES = [
    ("request.method", "VMethod"),
    ("to_wsgi_str(escape.url_unescape(_path_bytes(request.path), encoding=None, plus=False))", "VPathInfo"),
    ("request.query", "VQuery"),
    ("request.remote_ip", "VRemoteIp"),
    ("host", "VHost"),
    ("str(port)", "VPortStr"),
    ("request.version", "VVersion"),
    ("(1, 0)", "VTuple10"),
    ("request.protocol", "VProtocol"),
    ("BytesIO(escape.utf8(request.body))", "VInput"),
    ("sys.stderr", "VStderr"),
    ("self.executor is not dummy_executor", "VMultithread"),
    ("True", "VTrue"),
    ("False", "VFalse"),
]


def dict_literal(st):
    if not (isinstance(st, ast.Assign) and len(st.targets) == 1 and getattr(st.targets[0], "id", None) == "environ"
            and isinstance(st.value, ast.Dict)):
        raise Unsupported("environ = {...} expected: " + ast.dump(st)[:200])
    out = []
    for k, v in zip(st.value.keys, st.value.values):
        if not (isinstance(k, ast.Constant) and isinstance(k.value, str)):
            raise Unsupported("dict key")
        if isinstance(v, ast.Constant) and isinstance(v.value, str):
            out.append("(%s, VConstStr %s)" % (gstring(k.value), gstring(v.value)))
            continue
        for src, ctor in VALUE_SHAPES:
            if same(v, src):
                out.append("(%s, %s)" % (gstring(k.value), ctor))
                break
        else:
            raise Unsupported("value of %r: %s" % (k.value, ast.dump(v)[:200]))
    return out


def content_stmt(st):
    if not (isinstance(st, ast.If) and not st.orelse and len(st.body) == 1 and isinstance(st.test, ast.Compare)
            and len(st.test.ops) == 1 and isinstance(st.test.ops[0], ast.In) and isinstance(st.test.left, ast.Constant)
            and same(st.test.comparators[0], "request.headers")):
        raise Unsupported("content header statement: " + ast.dump(st)[:200])
    hdr = st.test.left.value
    a = st.body[0]
    if not (isinstance(a, ast.Assign) and len(a.targets) == 1 and isinstance(a.targets[0], ast.Subscript)
            and getattr(a.targets[0].value, "id", None) == "environ" and isinstance(a.targets[0].slice, ast.Constant)
            and same(a.value, "request.headers.pop(%r)" % hdr)):
        raise Unsupported("content header assignment: " + ast.dump(a)[:200])
    return "(%s, %s)" % (gstring(hdr), gstring(a.targets[0].slice.value))


def header_loop(st):
    if not (isinstance(st, ast.For) and not st.orelse and len(st.body) == 1 and isinstance(st.target, ast.Tuple)
            and [getattr(x, "id", None) for x in st.target.elts] == ["key", "value"]
            and same(st.iter, "request.headers.items()")):
        raise Unsupported("header loop: " + ast.dump(st)[:200])
    a = st.body[0]
    if not (isinstance(a, ast.Assign) and len(a.targets) == 1 and isinstance(a.targets[0], ast.Subscript)
            and getattr(a.targets[0].value, "id", None) == "environ" and same(a.value, "value")):
        raise Unsupported("loop body")
    k = a.targets[0].slice
    if not (isinstance(k, ast.BinOp) and isinstance(k.op, ast.Add) and isinstance(k.left, ast.Constant)
            and isinstance(k.right, ast.Call) and isinstance(k.right.func, ast.Attribute) and k.right.func.attr == "upper"
            and not k.right.args and not k.right.keywords):
        raise Unsupported("loop key: " + ast.dump(k)[:200])
    r = k.right.func.value
    if not (isinstance(r, ast.Call) and isinstance(r.func, ast.Attribute) and r.func.attr == "replace"
            and getattr(r.func.value, "id", None) == "key" and len(r.args) == 2 and not r.keywords):
        raise Unsupported("loop key replace")
    return "t %s ++ py_upper (py_replace1 %d %d key)" % (gstring(k.left.value), char_const(r.args[0]), char_const(r.args[1]))


def self_uses(fn):
    """environ may only READ self.executor"""
    attrs = set()
    parents = {}
    for n in ast.walk(fn):
        for c in ast.iter_child_nodes(n):
            parents[c] = n
    for n in ast.walk(fn):
        if isinstance(n, ast.Name) and n.id == "self":
            p = parents.get(n)
            if not (isinstance(p, ast.Attribute) and isinstance(p.ctx, ast.Load) and p.attr == "executor"):
                raise Unsupported("use of self other than reading self.executor (line %d)" % n.lineno)
            gp = parents.get(p)
            if isinstance(gp, (ast.Attribute, ast.Call, ast.Subscript)):
                raise Unsupported("self.executor used as an object (line %d)" % n.lineno)
            attrs.add(p.attr)
        if isinstance(n, (ast.Global, ast.Nonlocal, ast.Lambda, ast.FunctionDef)) and n is not fn:
            raise Unsupported("nested scope / global in environ")
    return sorted(attrs)


def path_bytes(tree):
    fs = [n for n in tree.body if isinstance(n, ast.FunctionDef) and n.name == "_path_bytes"]
    if len(fs) != 1 or [a.arg for a in fs[0].args.args] != ["path"]:
        raise Unsupported("_path_bytes")
    body = strip_doc(fs[0].body)
    if not (len(body) == 1 and isinstance(body[0], ast.Try) and len(body[0].body) == 1 and len(body[0].handlers) == 1
            and not body[0].orelse and not body[0].finalbody):
        raise Unsupported("_path_bytes body")
    tr = body[0]
    names = {"latin1": "Latin1", "latin-1": "Latin1", "utf-8": "Utf8", "utf8": "Utf8"}
    out = []
    h = tr.handlers[0]
    if not (getattr(h.type, "id", None) == "UnicodeEncodeError" and len(h.body) == 1):
        raise Unsupported("_path_bytes handler")
    for r in (tr.body[0], h.body[0]):
        if not (isinstance(r, ast.Return) and isinstance(r.value, ast.Call) and isinstance(r.value.func, ast.Attribute)
                and r.value.func.attr == "encode" and getattr(r.value.func.value, "id", None) == "path"
                and len(r.value.args) == 1 and not r.value.keywords and isinstance(r.value.args[0], ast.Constant)
                and r.value.args[0].value in names):
            raise Unsupported("_path_bytes return: " + ast.dump(r)[:200])
        out.append(names[r.value.args[0].value])
    return out


def translate(tree):
    fn = find_method(tree, "WSGIContainer", "environ")
    if [a.arg for a in fn.args.args] != ["self", "request"] or fn.args.vararg or fn.args.kwarg or fn.args.kwonlyargs:
        raise Unsupported("signature of environ")
    body = strip_doc(fn.body)
    if len(body) != 8:
        raise Unsupported("environ has %d statements, 8 expected" % len(body))
    split = Split().compile(body[0:3])
    fixed = dict_literal(body[3])
    content = [content_stmt(body[4]), content_stmt(body[5])]
    key = header_loop(body[6])
    if not (isinstance(body[7], ast.Return) and getattr(body[7].value, "id", None) == "environ"):
        raise Unsupported("return environ")
    for n in ast.walk(fn):
        if isinstance(n, ast.Attribute) and isinstance(n.ctx, (ast.Store, ast.Del)):
            raise Unsupported("attribute assignment in environ (line %d)" % n.lineno)
    return split, fixed, content, key, self_uses(fn), path_bytes(tree)


def emit(repo, out):
    tree = ast.parse(open(os.path.join(repo, "tornado/wsgi.py")).read())
    split, fixed, content, key, attrs, codecs = translate(tree)
    txt = ("(* GENERATED by translators/c47_src.py from tornado/wsgi.py — do not edit *)\n"
           "From Coq Require Import List NArith Bool String.\nImport ListNotations.\nFrom TV Require Import C47.Model.\n"
           "Local Open Scope N_scope.\n\n"
           "(* WSGIContainer.environ, the host/port statements; req_host = request.host,\n"
           "   req_https = (request.protocol == \"https\") *)\n"
           "Definition src_split_host (req_host : text) (req_https : bool) : text * N + env_exn :=\n%s.\n\n"
           "(* the dict literal, in order *)\nDefinition src_fixed : list (string * vsrc) :=\n  [%s].\n\n"
           "(* if X in request.headers: environ[Y] = request.headers.pop(X) *)\n"
           "Definition src_content : list (string * string) := [%s].\n\n"
           "(* for key, value in request.headers.items(): environ[<this>] = value *)\n"
           "Definition src_cgi_key (key : text) : text := %s.\n\n"
           "(* _path_bytes: codecs tried in order *)\nDefinition src_path_bytes : list codec := [%s].\n\n"
           "(* attributes of self read by environ (nothing is written) *)\nDefinition src_self_attrs : list string := [%s].\n"
           % (split, ";\n   ".join(fixed), "; ".join(content), key, "; ".join(codecs), "; ".join(gstring(a) for a in attrs)))
    old = open(out).read() if os.path.exists(out) else None
    if old != txt:
        open(out, "w").write(txt)
    return txt


if __name__ == "__main__":
    repo = sys.argv[1] if len(sys.argv) > 1 else "/repo"
    out = sys.argv[2] if len(sys.argv) > 2 else os.path.join(os.path.dirname(os.path.dirname(os.path.abspath(__file__))), "coq/Gen/C47_src.v")
    print(emit(repo, out))
