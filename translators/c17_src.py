#!/venv/bin/python
"""Fail-closed reader for C17: parses tornado/websocket.py of the working tree with `ast`, checks
that the handshake functions still have exactly the statement structure the Gallina model
(coq/C17/Model.v) was written from, and emits coq/Gen/C17_src.v: a record `src_desc` with every
constant those functions use (GUID, version tuple, required-header tuple, tokens, header names,
status codes, allowed permessage-deflate keys, separators, whether check_origin lower-cases).

How it fails closed: each function body (docstring dropped) is normalised with `ast.unparse` and must
FULL-match a template in which only string/bytes/int literals and tuple/set literal contents are
holes.  Any other change (a reordered test, a dropped check, `==` turned into `in`, an extra
statement) raises Unsupported, which the check reports as a broken obligation.  A changed literal
still translates, and then Gen/C17_equiv.v (`src_desc = expected_desc`) no longer type-checks/proves.
"""
import ast
import os
import re
import sys


class Unsupported(Exception):
    pass


STR = r"'((?:[^'\\]|\\.)*)'"        # one python string literal as printed by ast.unparse


def find(tree, cls, fn):
    hits = [m for n in tree.body if isinstance(n, ast.ClassDef) and n.name == cls
            for m in n.body if isinstance(m, (ast.FunctionDef, ast.AsyncFunctionDef)) and m.name == fn]
    if len(hits) != 1:
        raise Unsupported("%s.%s: found %d definitions" % (cls, fn, len(hits)))
    return hits[0]


def body_text(m):
    b = m.body
    if b and isinstance(b[0], ast.Expr) and isinstance(b[0].value, ast.Constant) and isinstance(b[0].value.value, str):
        b = b[1:]
    return "\n".join(ast.unparse(s) for s in b)


def template(text):
    """Literal text with holes: <S> a string literal, <B> a bytes literal, <N> an int, <T> a tuple/set of string literals."""
    out = re.escape(text)
    out = out.replace(re.escape("<S>"), STR).replace(re.escape("<B>"), "b" + STR)
    out = out.replace(re.escape("<N>"), r"(\d+)")
    out = out.replace(re.escape("<T>"), r"[\(\{]((?:'(?:[^'\\]|\\.)*'(?:, )?)+)[\)\}]")
    return re.compile(out, re.S)


def lit(s):
    v = ast.literal_eval("'" + s + "'")
    if not isinstance(v, str) or any(ord(c) > 255 for c in v):
        raise Unsupported("literal %r" % (s,))
    return v


def lits(s):
    v = ast.literal_eval("(" + s + ",)")
    if not all(isinstance(x, str) for x in v):
        raise Unsupported("tuple %r" % (s,))
    return list(v)


def match(name, tmpl, text):
    m = template(tmpl).fullmatch(text)
    if not m:
        raise Unsupported("%s no longer has the structure the model was written from:\n%s" % (name, text))
    return m.groups()


T_GET = """self.open_args = args
self.open_kwargs = kwargs
if self.request.headers.get(<S>, '').lower() != <S>:
    self.set_status(<N>)
    log_msg = <S>
    self.finish(log_msg)
    gen_log.debug(log_msg)
    return
headers = self.request.headers
connection = map(lambda s: s.strip().lower(), headers.get(<S>, '').split(<S>))
if <S> not in connection:
    self.set_status(<N>)
    log_msg = <S>
    self.finish(log_msg)
    gen_log.debug(log_msg)
    return
if <S> in self.request.headers:
    origin = self.request.headers.get(<S>)
else:
    origin = self.request.headers.get(<S>, None)
if origin is not None and (not self.check_origin(origin)):
    self.set_status(<N>)
    log_msg = <S>
    self.finish(log_msg)
    gen_log.debug(log_msg)
    return
self.ws_connection = self.get_websocket_protocol()
if self.ws_connection:
    await self.ws_connection.accept_connection(self)
else:
    self.set_status(<N>, <S>)
    self.set_header(<S>, <S>)"""

T_ORIGIN_LOWER = """parsed_origin = urlparse(origin)
origin = parsed_origin.netloc
origin = origin.lower()
host = self.request.headers.get(<S>)
return origin == host"""
T_ORIGIN_NOLOWER = """parsed_origin = urlparse(origin)
origin = parsed_origin.netloc
host = self.request.headers.get(<S>)
return origin == host"""

T_PROTO = """websocket_version = self.request.headers.get(<S>)
if websocket_version in <T>:
    params = _WebSocketParams(ping_interval=self.ping_interval, ping_timeout=self.ping_timeout, max_message_size=self.max_message_size, compression_options=self.get_compression_options())
    return WebSocketProtocol13(self, False, params)
return None"""

T_FIELDS = """fields = <T>
if not all(map(lambda f: handler.request.headers.get(f), fields)):
    raise ValueError(<S>)"""

T_ACCEPT = """sha1 = hashlib.sha1()
sha1.update(utf8(key))
sha1.update(<B>)
return native_str(base64.b64encode(sha1.digest()))"""

T_CHALLENGE = """return WebSocketProtocol13.compute_accept_value(cast(str, handler.request.headers.get(<S>)))"""

T_ACCEPT_CONN = """try:
    self._handle_websocket_headers(handler)
except ValueError:
    handler.set_status(<N>)
    log_msg = <S>
    handler.finish(log_msg)
    gen_log.debug(log_msg)
    return
try:
    await self._accept_connection(handler)
except asyncio.CancelledError:
    self._abort()
    return
except ValueError:
    gen_log.debug(<S>, exc_info=True)
    self._abort()
    return"""

T_PARSE_EXT = """extensions = headers.get(<S>, '')
if extensions:
    return [httputil._parse_header(e.strip()) for e in extensions.split(<S>)]
return []"""

T_SERVER_HEADERS = """assert headers[<S>].lower() == <S>
assert headers[<S>].lower() == <S>
accept = self.compute_accept_value(key)
assert headers[<S>] == accept
extensions = self._parse_extensions_header(headers)
for ext in extensions:
    if ext[0] == <S> and self._compression_options is not None:
        self._create_compressors('client', ext[1])
    else:
        raise ValueError(<S>, ext)
self.selected_subprotocol = headers.get(<S>, None)"""

# _accept_connection up to handler.finish(): the part the model covers
T_ACCEPT_HEAD = """subprotocol_header = handler.request.headers.get(<S>)
if subprotocol_header:
    subprotocols = [s.strip() for s in subprotocol_header.split(<S>)]
else:
    subprotocols = []
self.selected_subprotocol = handler.select_subprotocol(subprotocols)
if self.selected_subprotocol:
    assert self.selected_subprotocol in subprotocols
    handler.set_header(<S>, self.selected_subprotocol)
extensions = self._parse_extensions_header(handler.request.headers)
for ext in extensions:
    if ext[0] == <S> and self._compression_options is not None:
        try:
            self._create_compressors('server', ext[1], self._compression_options)
        except ValueError:
            self._compressor = self._decompressor = None
            continue
        if <S> in ext[1] and ext[1][<S>] is None:
            del ext[1][<S>]
        handler.set_header(<S>, httputil._encode_header(<S>, ext[1]))
        break
handler.clear_header(<S>)
handler.set_status(<N>)
handler.set_header(<S>, <S>)
handler.set_header(<S>, <S>)
handler.set_header(<S>, self._challenge_response(handler))
handler.finish()
"""

T_CREATE_HEAD = """allowed_keys = <T>
for key in agreed_parameters:
    if key not in allowed_keys:
        raise ValueError('unsupported compression parameter %r' % key)
other_side = 'client' if side == 'server' else 'server'
"""

T_CLIENT_SUB = """selected = self.protocol.selected_subprotocol
if selected is not None:
    offered = self.request.headers.get(<S>, '')
    if selected not in [s.strip() for s in offered.split(<S>)]:
        raise ValueError('server selected a subprotocol that was not offered: %r' % selected)
"""


def translate(src):
    tree = ast.parse(src)
    d = {}
    g = match("WebSocketHandler.get", T_GET, body_text(find(tree, "WebSocketHandler", "get")))
    (h_up, tok_up, st_up, _m1, h_cn, sep_cn, tok_cn, st_cn, _m2, h_or1, h_or2, h_or3, st_or, _m3, st_np, _reason, h_ver2, ver_list) = g
    if not (lit(h_or1) == lit(h_or2)):
        raise Unsupported("get(): the membership test and the lookup name different Origin headers")
    d["upgrade_header"], d["upgrade_token"] = lit(h_up), lit(tok_up)
    d["connection_header"], d["connection_sep"], d["connection_token"] = lit(h_cn), lit(sep_cn), lit(tok_cn)
    d["origin_header"], d["origin_header2"] = lit(h_or1), lit(h_or3)
    d["exits"] = [int(st_up), int(st_cn), int(st_or), int(st_np)]
    d["versions_advertised"] = lit(ver_list)

    text = body_text(find(tree, "WebSocketHandler", "check_origin"))
    if template(T_ORIGIN_LOWER).fullmatch(text):
        d["origin_lower"] = True
        (hh,) = match("check_origin", T_ORIGIN_LOWER, text)
    else:
        d["origin_lower"] = False
        (hh,) = match("WebSocketHandler.check_origin", T_ORIGIN_NOLOWER, text)
    d["origin_host_header"] = lit(hh)

    hv, vers = match("WebSocketHandler.get_websocket_protocol", T_PROTO, body_text(find(tree, "WebSocketHandler", "get_websocket_protocol")))
    d["version_header"], d["versions"] = lit(hv), lits(vers)

    flds, _msg = match("_handle_websocket_headers", T_FIELDS, body_text(find(tree, "WebSocketProtocol13", "_handle_websocket_headers")))
    d["required"] = lits(flds)

    (guid,) = match("compute_accept_value", T_ACCEPT, body_text(find(tree, "WebSocketProtocol13", "compute_accept_value")))
    d["guid"] = lit(guid)
    (kh,) = match("_challenge_response", T_CHALLENGE, body_text(find(tree, "WebSocketProtocol13", "_challenge_response")))
    d["key_header"] = lit(kh)

    st_bad, _m, _m2 = match("accept_connection", T_ACCEPT_CONN, body_text(find(tree, "WebSocketProtocol13", "accept_connection")))
    d["exits"].append(int(st_bad))

    eh, esep = match("_parse_extensions_header", T_PARSE_EXT, body_text(find(tree, "WebSocketProtocol13", "_parse_extensions_header")))
    d["ext_header"], d["ext_sep"] = lit(eh), lit(esep)

    g = match("_process_server_headers", T_SERVER_HEADERS, body_text(find(tree, "WebSocketProtocol13", "_process_server_headers")))
    d["c_upgrade_header"], d["c_upgrade_token"], d["c_connection_header"], d["c_connection_token"] = map(lit, g[0:4])
    d["c_accept_header"], d["c_ext_name"], d["c_protocol_header"] = lit(g[4]), lit(g[5]), lit(g[7])

    text = body_text(find(tree, "WebSocketProtocol13", "_accept_connection"))
    m = template(T_ACCEPT_HEAD).match(text)      # prefix: everything up to handler.finish()
    if not m:
        raise Unsupported("_accept_connection no longer has the structure the model was written from:\n" + text)
    g = m.groups()
    d["s_protocol_header"], d["s_protocol_sep"], d["s_protocol_resp"] = lit(g[0]), lit(g[1]), lit(g[2])
    d["s_ext_name"] = lit(g[3])
    if not (lit(g[4]) == lit(g[5]) == lit(g[6])):
        raise Unsupported("_accept_connection: the valueless-parameter test names different keys")
    d["s_ext_resp"], d["s_ext_resp_name"] = lit(g[7]), lit(g[8])
    d["s_status"] = int(g[10])
    d["s_fixed_headers"] = [[lit(g[11]), lit(g[12])], [lit(g[13]), lit(g[14])]]
    d["s_accept_resp"] = lit(g[15])

    text = body_text(find(tree, "WebSocketProtocol13", "_create_compressors"))
    m = template(T_CREATE_HEAD).match(text)
    if not m:
        raise Unsupported("_create_compressors no longer has the structure the model was written from:\n" + text)
    d["allowed_keys"] = sorted(lits(m.group(1)))

    text = body_text(find(tree, "WebSocketClientConnection", "headers_received"))
    m = template(T_CLIENT_SUB).search(text)
    if not m or len(template(T_CLIENT_SUB).findall(text)) != 1:
        raise Unsupported("headers_received: the offered-subprotocol test no longer has the structure the model was written from")
    d["c_offer_header"], d["c_offer_sep"] = lit(m.group(1)), lit(m.group(2))
    return d


def gs(s):
    return "(@nil N)" if not s else "[" + ";".join(str(ord(c)) for c in s) + "]%N"


def gl(xs):
    return "(@nil (list N))" if not xs else "[" + "; ".join(gs(x) for x in xs) + "]"


def norm(name):
    """HTTPHeaders is case-insensitive: header names are compared lower-cased."""
    return name.lower()


def render(d):
    fields = [
        ("d_guid", gs(d["guid"])),
        ("d_versions", gl(d["versions"])),
        ("d_versions_advertised", gs(d["versions_advertised"])),
        ("d_required", gl([norm(x) for x in d["required"]])),
        ("d_upgrade_token", gs(d["upgrade_token"])),
        ("d_connection_token", gs(d["connection_token"])),
        ("d_connection_sep", gs(d["connection_sep"])),
        ("d_origin_lower", "true" if d["origin_lower"] else "false"),
        ("d_exits", "[" + "; ".join("%d%%N" % x for x in d["exits"]) + "]"),
        ("d_status", "%d%%N" % d["s_status"]),
        ("d_request_headers", gl([norm(d[k]) for k in ("upgrade_header", "connection_header", "origin_header", "origin_header2",
                                                        "origin_host_header", "key_header", "version_header", "s_protocol_header", "ext_header")])),
        ("d_response_headers", gl([norm(d["s_fixed_headers"][0][0]), norm(d["s_fixed_headers"][1][0]), norm(d["s_accept_resp"]),
                                   norm(d["s_protocol_resp"]), norm(d["s_ext_resp"])])),
        ("d_response_fixed", gl([d["s_fixed_headers"][0][1], d["s_fixed_headers"][1][1]])),
        ("d_client_headers", gl([norm(d[k]) for k in ("c_upgrade_header", "c_connection_header", "c_accept_header", "c_protocol_header", "c_offer_header")])),
        ("d_client_tokens", gl([d["c_upgrade_token"], d["c_connection_token"]])),
        ("d_ext_names", gl([d["s_ext_name"], d["s_ext_resp_name"], d["c_ext_name"]])),
        ("d_seps", gl([d["s_protocol_sep"], d["ext_sep"], d["c_offer_sep"]])),
        ("d_allowed_keys", gl(d["allowed_keys"])),
    ]
    return ("(* GENERATED by translators/c17_src.py from tornado/websocket.py — do not edit *)\n"
            "From Coq Require Import List NArith.\nImport ListNotations.\nFrom TV Require Import C17.Desc.\n"
            "Definition src_desc : hs_desc :=\n  {| " + ";\n     ".join("%s := %s" % f for f in fields) + " |}.\n")


def emit(repo, out_path):
    text = render(translate(open(os.path.join(repo, "tornado", "websocket.py")).read()))
    old = open(out_path).read() if os.path.exists(out_path) else None
    if old != text:
        open(out_path, "w").write(text)


if __name__ == "__main__":
    repo = sys.argv[1] if len(sys.argv) > 1 else "/repo"
    print(render(translate(open(os.path.join(repo, "tornado", "websocket.py")).read())))
