#!/venv/bin/python
"""Fail-closed translator for C27: reads tornado/httputil.py from the working tree with
`ast` and emits coq/Gen/C27_src.v with Gallina definitions of

    _int_or_none          -> src_int_or_none : text -> ion
    _parse_request_range  -> src_parse_request_range : text -> option (option Z * option Z)
    _get_content_range    -> src_get_content_range : option Z -> option Z -> Z -> text

over the primitives of coq/C27/Model.v + coq/C27/PyPrims.v (partition, strip, text_eqb, py_or,
fmt_int, ...).  Gen/C27_equiv.v proves them extensionally equal to the hand-written model
the C27 theorems are about.

Supported Python (anything else raises Unsupported, which the check reports as a broken
obligation): parameters annotated str / int / int | None; `a, _, b = x.partition("c")`;
tuple assignment of `.strip()` calls; `x = <int expr>`, `x = None`, `x += <int>`; `x = y or <int>`;
`if <cond>: return/raise`; `if <cond>:` / `else:` blocks that only assign (merged as a tuple of the
assigned variables); conditions `x is None`, `x is not None` (these refine the static type of x
inside the branches), `==`/`!=` on str or int, `re.fullmatch(r"[0-9]+", v) is None`;
`try: x = _int_or_none(e) ... except ValueError: return None`; `return None`, `return (a, b)`,
`return int(v)` (only after the [0-9]+ guard on v), `raise ValueError(...)`, `return f"..."` with
plain `{name}` fields of int type.  Integer variables carry the static types int / none / optint."""
import ast
import os
import sys


class Unsupported(Exception):
    pass


RENAME = {"end": "end_", "unit": "unit_", "value": "value_", "val": "val_", "total": "total_"}


def cn(name):
    return RENAME.get(name, name)


def codes(s):
    if not all(ord(c) < 0x110000 for c in s):
        raise Unsupported("string literal")
    if s == "":
        return "(@nil N)"
    return "[" + "; ".join(str(ord(c)) for c in s) + "]%N"


def ann_type(a):
    src = ast.unparse(a) if a is not None else None
    if src == "str":
        return "text"
    if src == "int":
        return "int"
    if src in ("int | None", "Optional[int]"):
        return "optint"
    raise Unsupported("parameter annotation %r" % src)


class Fn:
    """One function being translated: env maps python names to static types."""

    def __init__(self, name, ret_mode):
        self.name = name
        self.ret_mode = ret_mode      # "ion" | "range" | "text"
        self.digit_guarded = set()    # variables known to fullmatch [0-9]+ from here on

    # ---------- expressions ----------
    def int_expr(self, n, env):
        if isinstance(n, ast.Constant) and isinstance(n.value, int) and not isinstance(n.value, bool):
            if abs(n.value) > 10 ** 9:
                raise Unsupported("int literal too large")
            return "(%d)%%Z" % n.value
        if isinstance(n, ast.Name):
            if env.get(n.id) != "int":
                raise Unsupported("%s used as an int while its static type is %s" % (n.id, env.get(n.id)))
            return cn(n.id)
        if isinstance(n, ast.UnaryOp) and isinstance(n.op, ast.USub):
            return "(- %s)%%Z" % self.int_expr(n.operand, env)
        if isinstance(n, ast.BinOp) and isinstance(n.op, (ast.Add, ast.Sub)):
            return "(%s %s %s)%%Z" % (self.int_expr(n.left, env), "+" if isinstance(n.op, ast.Add) else "-", self.int_expr(n.right, env))
        if isinstance(n, ast.BoolOp) and isinstance(n.op, ast.Or) and len(n.values) == 2 and isinstance(n.values[0], ast.Name) \
                and env.get(n.values[0].id) == "optint":
            return "(py_or %s %s)" % (cn(n.values[0].id), self.int_expr(n.values[1], env))
        raise Unsupported("int expression: " + ast.dump(n))

    def text_expr(self, n, env):
        if isinstance(n, ast.Constant) and isinstance(n.value, str):
            return codes(n.value)
        if isinstance(n, ast.Name):
            if env.get(n.id) != "text":
                raise Unsupported("%s used as a str" % n.id)
            return cn(n.id)
        if isinstance(n, ast.Call) and isinstance(n.func, ast.Attribute) and n.func.attr == "strip" and not n.args and not n.keywords:
            return "(strip %s)" % self.text_expr(n.func.value, env)
        raise Unsupported("str expression: " + ast.dump(n))

    def opt_value(self, name, env):
        """the current value of an integer variable as an option Z term"""
        t = env.get(name)
        if t == "int":
            return "(Some %s)" % cn(name)
        if t == "none":
            return "(@None Z)"
        if t == "optint":
            return cn(name)
        raise Unsupported("%s is not an integer variable (%s)" % (name, t))

    def cond(self, n, env):
        """-> ("bool", term) | ("isnone", var, negated)"""
        if isinstance(n, ast.Compare) and len(n.ops) == 1 and len(n.comparators) == 1:
            op, l, r = n.ops[0], n.left, n.comparators[0]
            if isinstance(op, (ast.Is, ast.IsNot)) and isinstance(r, ast.Constant) and r.value is None:
                if isinstance(l, ast.Name) and env.get(l.id) in ("optint", "int", "none"):
                    return ("isnone", l.id, isinstance(op, ast.IsNot))
                if isinstance(l, ast.Call) and ast.unparse(l.func) == "re.fullmatch" and len(l.args) == 2 and not l.keywords \
                        and isinstance(l.args[0], ast.Constant) and l.args[0].value == "[0-9]+" and isinstance(l.args[1], ast.Name) \
                        and env.get(l.args[1].id) == "text":
                    t = "(py_fullmatch_digits %s)" % cn(l.args[1].id)
                    return ("bool", t if isinstance(op, ast.IsNot) else "(negb %s)" % t, ("digits", l.args[1].id, isinstance(op, ast.Is)))
                raise Unsupported("is-None test: " + ast.dump(n))
            if isinstance(op, (ast.Eq, ast.NotEq)):
                neg = isinstance(op, ast.NotEq)
                try:
                    t = "(text_eqb %s %s)" % (self.text_expr(l, env), self.text_expr(r, env))
                except Unsupported:
                    t = "(%s =? %s)%%Z" % (self.int_expr(l, env), self.int_expr(r, env))
                return ("bool", "(negb %s)" % t if neg else t, None)
        raise Unsupported("condition: " + ast.dump(n))

    # ---------- statements ----------
    def ret(self, s, env):
        v = s.value
        if self.ret_mode == "ion":
            if isinstance(v, ast.Constant) and v.value is None:
                return "IonNone"
            if isinstance(v, ast.Call) and isinstance(v.func, ast.Name) and v.func.id == "int" and len(v.args) == 1 and not v.keywords \
                    and isinstance(v.args[0], ast.Name) and v.args[0].id in self.digit_guarded:
                return "(py_int_of_digits %s)" % cn(v.args[0].id)
            raise Unsupported("return in %s: %s" % (self.name, ast.dump(v)))
        if self.ret_mode == "range":
            if isinstance(v, ast.Constant) and v.value is None:
                return "None"
            if isinstance(v, ast.Tuple) and len(v.elts) == 2 and all(isinstance(e, ast.Name) for e in v.elts):
                return "(Some (%s, %s))" % tuple(self.opt_value(e.id, env) for e in v.elts)
            raise Unsupported("return in %s: %s" % (self.name, ast.dump(v)))
        if self.ret_mode == "text":
            if isinstance(v, ast.JoinedStr):
                parts = []
                for p in v.values:
                    if isinstance(p, ast.Constant) and isinstance(p.value, str):
                        parts.append(codes(p.value))
                    elif isinstance(p, ast.FormattedValue) and p.conversion == -1 and p.format_spec is None:
                        parts.append("fmt_int %s" % self.int_expr(p.value, env))
                    else:
                        raise Unsupported("f-string field: " + ast.dump(p))
                return "(" + " ++ ".join(parts) + ")"
            raise Unsupported("return in %s: %s" % (self.name, ast.dump(v)))
        raise Unsupported("return mode")

    def assigned(self, stmts):
        out = []
        for s in stmts:
            if isinstance(s, ast.Assign) and len(s.targets) == 1 and isinstance(s.targets[0], ast.Name):
                names = [s.targets[0].id]
            elif isinstance(s, ast.AugAssign) and isinstance(s.target, ast.Name):
                names = [s.target.id]
            elif isinstance(s, ast.If):
                names = self.assigned(s.body) + self.assigned(s.orelse)
            else:
                raise Unsupported("statement inside an assigning if-block: " + type(s).__name__)
            for x in names:
                if x not in out:
                    out.append(x)
        return out

    def terminal(self, stmts):
        return bool(stmts) and isinstance(stmts[-1], (ast.Return, ast.Raise))

    def block(self, stmts, env, tail):
        """Gallina for `stmts` followed by tail(env) when control falls off the end."""
        if not stmts:
            return tail(env)
        s, rest = stmts[0], stmts[1:]
        env = dict(env)
        if isinstance(s, ast.Return):
            if rest:
                raise Unsupported("code after return")
            return self.ret(s, env)
        if isinstance(s, ast.Raise):
            if rest or self.ret_mode != "ion" or not (isinstance(s.exc, ast.Call) and isinstance(s.exc.func, ast.Name) and s.exc.func.id == "ValueError"):
                raise Unsupported("raise: " + ast.dump(s))
            return "IonValueError"
        if isinstance(s, ast.Assign):
            if len(s.targets) != 1:
                raise Unsupported("chained assignment")
            t, v = s.targets[0], s.value
            if isinstance(t, ast.Tuple):
                names = []
                for e in t.elts:
                    if not isinstance(e, ast.Name):
                        raise Unsupported("tuple target")
                    names.append(e.id)
                if isinstance(v, ast.Call) and isinstance(v.func, ast.Attribute) and v.func.attr == "partition" and len(v.args) == 1 \
                        and not v.keywords and isinstance(v.args[0], ast.Constant) and isinstance(v.args[0].value, str) \
                        and len(v.args[0].value) == 1 and len(names) == 3 and names[1] == "_":
                    src = self.text_expr(v.func.value, env)
                    env[names[0]] = env[names[2]] = "text"
                    return "let '(%s, _, %s) := partition %d%%N %s in\n  %s" % (
                        cn(names[0]), cn(names[2]), ord(v.args[0].value), src, self.block(rest, env, tail))
                if isinstance(v, ast.Tuple) and len(v.elts) == len(names):
                    vals = [self.text_expr(e, env) for e in v.elts]
                    for x in names:
                        env[x] = "text"
                    return "let '(%s) := (%s) in\n  %s" % (", ".join(cn(x) for x in names), ", ".join(vals), self.block(rest, env, tail))
                raise Unsupported("tuple assignment: " + ast.dump(s))
            if not isinstance(t, ast.Name):
                raise Unsupported("assignment target")
            if isinstance(v, ast.Constant) and v.value is None:
                if env.get(t.id) not in ("int", "optint", "none"):
                    raise Unsupported("None assigned to a non-integer variable")
                env[t.id] = "none"
                return self.block(rest, env, tail)
            val = self.int_expr(v, env)
            env[t.id] = "int"
            return "let %s := %s in\n  %s" % (cn(t.id), val, self.block(rest, env, tail))
        if isinstance(s, ast.AugAssign):
            if not (isinstance(s.target, ast.Name) and isinstance(s.op, ast.Add) and env.get(s.target.id) == "int"):
                raise Unsupported("augmented assignment: " + ast.dump(s))
            return "let %s := (%s + %s)%%Z in\n  %s" % (cn(s.target.id), cn(s.target.id), self.int_expr(s.value, env), self.block(rest, env, tail))
        if isinstance(s, ast.Try):
            if s.orelse or s.finalbody or len(s.handlers) != 1:
                raise Unsupported("try shape")
            h = s.handlers[0]
            if not (isinstance(h.type, ast.Name) and h.type.id == "ValueError" and h.name is None):
                raise Unsupported("except clause")
            if not self.terminal(h.body):
                raise Unsupported("except body must return")
            on_err = self.block(h.body, env, self.no_fall)
            calls = []
            for b in s.body:
                if not (isinstance(b, ast.Assign) and len(b.targets) == 1 and isinstance(b.targets[0], ast.Name)
                        and isinstance(b.value, ast.Call) and isinstance(b.value.func, ast.Name) and b.value.func.id == "_int_or_none"
                        and len(b.value.args) == 1 and not b.value.keywords):
                    raise Unsupported("statement in try body: " + ast.dump(b))
                calls.append((b.targets[0].id, self.text_expr(b.value.args[0], env)))
            for x, _ in calls:
                env[x] = "optint"
            inner = self.block(rest, env, tail)
            for x, arg in reversed(calls):
                inner = "ion_bind (src_int_or_none %s) (fun %s =>\n  %s)\n  (%s)" % (arg, cn(x), inner, on_err)
            return inner
        if isinstance(s, ast.If):
            c = self.cond(s.test, env)
            if self.terminal(s.body):
                if s.orelse:
                    raise Unsupported("else after a returning if")
                if c[0] != "bool":
                    raise Unsupported("returning if on an is-None test")
                then = self.block(s.body, env, self.no_fall)
                if c[2] and c[2][0] == "digits" and c[2][2]:
                    self.digit_guarded.add(c[2][1])      # fell through `if fullmatch(...) is None: raise`
                return "if %s then (%s) else\n  %s" % (c[1], then, self.block(rest, env, tail))
            mod = [x for x in self.assigned(s.body) + self.assigned(s.orelse)]
            mod = [x for i, x in enumerate(mod) if x not in mod[:i]]
            if not mod:
                raise Unsupported("if-block without effect")
            for x in mod:
                if env.get(x) not in ("int", "optint", "none"):
                    raise Unsupported("if-block assigns the non-integer variable " + x)

            def merge(e):
                return "(" + ", ".join(self.opt_value(x, e) for x in mod) + ")"

            if c[0] == "isnone":
                var, when_some_is_body = c[1], c[2]
                if env.get(var) != "optint":
                    raise Unsupported("is-None test on %s whose static type is %s" % (var, env.get(var)))
                e_some, e_none = dict(env), dict(env)
                e_some[var] = "int"
                e_none[var] = "none"
                b_some, b_none = (s.body, s.orelse) if when_some_is_body else (s.orelse, s.body)
                branch = "match %s with\n  | Some %s => (%s)\n  | None => (%s)\n  end" % (
                    cn(var), cn(var), self.block(b_some, e_some, merge), self.block(b_none, e_none, merge))
            else:
                branch = "if %s then (%s) else (%s)" % (c[1], self.block(s.body, env, merge), self.block(s.orelse, env, merge))
            for x in mod:
                env[x] = "optint"
            return "let '(%s) := %s in\n  %s" % (", ".join(cn(x) for x in mod), branch, self.block(rest, env, tail))
        if isinstance(s, ast.Expr) and isinstance(s.value, ast.Constant) and isinstance(s.value.value, str):
            return self.block(rest, env, tail)       # docstring
        raise Unsupported("statement: " + type(s).__name__)

    def no_fall(self, env):
        raise Unsupported("control falls off the end of %s" % self.name)


COQ_TYPES = {"text": "text", "int": "Z", "optint": "option Z"}


def function(tree, name, src_name, ret_mode, ret_type, expect_params):
    fns = [n for n in tree.body if isinstance(n, ast.FunctionDef) and n.name == name]
    if len(fns) != 1:
        raise Unsupported("function %s not found exactly once" % name)
    fn = fns[0]
    a = fn.args
    if a.vararg or a.kwarg or a.kwonlyargs or a.defaults or a.posonlyargs or fn.decorator_list:
        raise Unsupported("signature of " + name)
    params = [(x.arg, ann_type(x.annotation)) for x in a.args]
    if [t for _, t in params] != expect_params:
        raise Unsupported("parameter types of %s: %r" % (name, params))
    f = Fn(name, ret_mode)
    env = {p: t for p, t in params}
    body = f.block(fn.body, env, f.no_fall)
    binders = " ".join("(%s : %s)" % (cn(p), COQ_TYPES[t]) for p, t in params)
    return "(* %s *)\nDefinition %s %s : %s :=\n  %s.\n" % (name, src_name, binders, ret_type, body)


def translate(src):
    tree = ast.parse(src)
    out = [function(tree, "_int_or_none", "src_int_or_none", "ion", "ion", ["text"]),
           function(tree, "_parse_request_range", "src_parse_request_range", "range", "option (option Z * option Z)", ["text"]),
           function(tree, "_get_content_range", "src_get_content_range", "text", "text", ["optint", "optint", "int"])]
    return "\n".join(out)


def emit(repo, out_path):
    src = open(os.path.join(repo, "tornado", "httputil.py")).read()
    text = ("(* GENERATED by translators/c27_src.py from tornado/httputil.py — do not edit *)\n"
            "From Coq Require Import List ZArith NArith Bool.\nImport ListNotations.\n"
            "From TV Require Import C27.Model C27.PyPrims.\n\n" + translate(src))
    old = open(out_path).read() if os.path.exists(out_path) else None
    if old != text:
        open(out_path, "w").write(text)


if __name__ == "__main__":
    repo = sys.argv[1] if len(sys.argv) > 1 else "/repo"
    print(translate(open(os.path.join(repo, "tornado", "httputil.py")).read()))
