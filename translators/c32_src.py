#!/venv/bin/python
"""Fail-closed translator for C32: reads tornado/httpserver.py and tornado/netutil.py from the
working tree with `ast` and emits coq/Gen/C32_src.v:

  src_apply, src_unapply          -- bodies of _HTTPRequestContext._apply_xheaders / _unapply_xheaders
                                     as terms of the statement language of coq/C32/Ast.v
  src_guard                       -- the atoms of the first `if ...: return False` of netutil.is_valid_ip
  src_pa_headers_received / src_pa_finish / src_pa_on_connection_close
                                  -- the call sequences of the _ProxyAdapter methods

Only the statement / expression shapes handled below are accepted; anything else raises
Unsupported (the check then reports a broken obligation).  Also checked, by exact text:
the rest of is_valid_ip (the getaddrinfo call and its exception mapping), _ProxyAdapter._cleanup,
_ProxyAdapter.data_received, that HTTPServer.start_request wraps the delegate in _ProxyAdapter
iff self.xheaders, and the fields saved by _HTTPRequestContext.__init__."""
import ast
import os
import sys


class Unsupported(Exception):
    pass


VARS = {"ip": "VIp", "proto_header": "VProtoHeader"}
FIELDS = {"remote_ip": "FRemoteIp", "protocol": "FProtocol", "_orig_remote_ip": "FOrigIp", "_orig_protocol": "FOrigProto"}
ASSIGNABLE_FIELDS = {"FRemoteIp", "FProtocol"}


def gstr(s):
    if not isinstance(s, str):
        raise Unsupported("string constant expected: %r" % (s,))
    if not s:
        return "(@nil N)"
    return "[" + ";".join(str(ord(c)) for c in s) + "]%N"


def sep_char(n):
    if isinstance(n, ast.Constant) and isinstance(n.value, str) and len(n.value) == 1:
        return "%d%%N" % ord(n.value)
    raise Unsupported("one-character separator expected: " + ast.dump(n))


def is_self_attr(n, attr=None):
    return (isinstance(n, ast.Attribute) and isinstance(n.value, ast.Name) and n.value.id == "self"
            and (attr is None or n.attr == attr))


def method_call(n, nargs):
    """n is obj.meth(args...) without keywords -> (obj, meth, args)"""
    if isinstance(n, ast.Call) and isinstance(n.func, ast.Attribute) and not n.keywords and len(n.args) == nargs:
        return n.func.value, n.func.attr, n.args
    return None


def split_call(n):
    """e.split(<sep>) -> (e, sep)"""
    mc = method_call(n, 1)
    if mc and mc[1] == "split":
        return mc[0], sep_char(mc[2][0])
    return None


def expr(n):
    if isinstance(n, ast.Name) and isinstance(n.ctx, ast.Load) and n.id in VARS:
        return "(EVar %s)" % VARS[n.id]
    if is_self_attr(n) and n.attr in FIELDS:
        return "(EField %s)" % FIELDS[n.attr]
    if isinstance(n, ast.Constant) and isinstance(n.value, str):
        return "(EConst %s)" % gstr(n.value)
    mc = method_call(n, 2)
    if mc and mc[1] == "get" and isinstance(mc[0], ast.Name) and mc[0].id == "headers":
        name = mc[2][0]
        if not (isinstance(name, ast.Constant) and isinstance(name.value, str)):
            raise Unsupported("header name must be a literal")
        return "(EGet %s %s)" % (gstr(name.value), expr(mc[2][1]))
    mc = method_call(n, 0)
    if mc and mc[1] == "strip" and isinstance(mc[0], ast.Subscript):
        sub = mc[0]
        idx = sub.slice
        if not (isinstance(idx, ast.UnaryOp) and isinstance(idx.op, ast.USub) and isinstance(idx.operand, ast.Constant)
                and idx.operand.value == 1 and type(idx.operand.value) is int):
            raise Unsupported("only [-1] is supported: " + ast.dump(idx))
        sc = split_call(sub.value)
        if sc is None:
            raise Unsupported("x.split(sep)[-1].strip() expected")
        return "(ELastStrip %s %s)" % (expr(sc[0]), sc[1])
    raise Unsupported("expression: " + ast.dump(n))


def cond(n):
    if isinstance(n, ast.Call) and not n.keywords and len(n.args) == 1 and ast.unparse(n.func) == "netutil.is_valid_ip":
        return "(CValidIp %s)" % expr(n.args[0])
    if isinstance(n, ast.Name):
        return "(CTruthy %s)" % expr(n)
    if isinstance(n, ast.Compare) and len(n.ops) == 1 and isinstance(n.ops[0], ast.In) and len(n.comparators) == 1:
        t = n.comparators[0]
        if not (isinstance(t, ast.Tuple) and t.elts and all(isinstance(e, ast.Constant) and isinstance(e.value, str) for e in t.elts)):
            raise Unsupported("`in` needs a tuple of string literals")
        return "(CIn %s [%s])" % (expr(n.left), "; ".join(gstr(e.value) for e in t.elts))
    raise Unsupported("condition: " + ast.dump(n))


def skip_trusted(s):
    """for v in (cand.strip() for cand in reversed(e.split(sep))): if v not in self.trusted_downstream: break"""
    if s.orelse or getattr(s, "type_comment", None):
        raise Unsupported("for/else")
    if not (isinstance(s.target, ast.Name) and s.target.id in VARS):
        raise Unsupported("loop variable")
    v = s.target.id
    g = s.iter
    if not (isinstance(g, ast.GeneratorExp) and len(g.generators) == 1):
        raise Unsupported("loop iterable: " + ast.dump(g))
    comp = g.generators[0]
    if comp.ifs or comp.is_async or not isinstance(comp.target, ast.Name):
        raise Unsupported("comprehension")
    cv = comp.target.id
    if cv in VARS:
        raise Unsupported("comprehension variable shadows a local")
    mc = method_call(g.elt, 0)
    if not (mc and mc[1] == "strip" and isinstance(mc[0], ast.Name) and mc[0].id == cv):
        raise Unsupported("generator element must be <var>.strip()")
    it = comp.iter
    if not (isinstance(it, ast.Call) and isinstance(it.func, ast.Name) and it.func.id == "reversed" and len(it.args) == 1 and not it.keywords):
        raise Unsupported("reversed(...) expected: " + ast.dump(it))
    sc = split_call(it.args[0])
    if sc is None:
        raise Unsupported("reversed(e.split(sep)) expected: " + ast.dump(it.args[0]))
    if len(s.body) != 1 or not isinstance(s.body[0], ast.If):
        raise Unsupported("loop body")
    i = s.body[0]
    t = i.test
    if not (isinstance(t, ast.Compare) and len(t.ops) == 1 and isinstance(t.ops[0], ast.NotIn) and isinstance(t.left, ast.Name)
            and t.left.id == v and len(t.comparators) == 1 and is_self_attr(t.comparators[0], "trusted_downstream")):
        raise Unsupported("loop test: " + ast.dump(t))
    if i.orelse or len(i.body) != 1 or not isinstance(i.body[0], ast.Break):
        raise Unsupported("loop body must be `break`")
    return "SSkipTrusted %s %s %s" % (VARS[v], expr(sc[0]), sc[1])


def stmt(s):
    if isinstance(s, ast.Assign):
        if len(s.targets) != 1:
            raise Unsupported("multiple assignment")
        t = s.targets[0]
        if isinstance(t, ast.Name) and t.id in VARS:
            return "SAssign %s %s" % (VARS[t.id], expr(s.value))
        if is_self_attr(t) and FIELDS.get(t.attr) in ASSIGNABLE_FIELDS:
            return "SSetField %s %s" % (FIELDS[t.attr], expr(s.value))
        raise Unsupported("assignment target: " + ast.dump(t))
    if isinstance(s, ast.For):
        return skip_trusted(s)
    if isinstance(s, ast.If):
        if s.orelse:
            raise Unsupported("else branch")
        return "SIf %s %s" % (cond(s.test), stmts(s.body))
    raise Unsupported("statement: " + type(s).__name__)


def stmts(body):
    return "[" + ";\n     ".join(stmt(s) for s in body) + "]"


def find_class(tree, name):
    cs = [n for n in tree.body if isinstance(n, ast.ClassDef) and n.name == name]
    if len(cs) != 1:
        raise Unsupported("class %s" % name)
    return cs[0]


def find_fn(body, name):
    fs = [n for n in body if isinstance(n, (ast.FunctionDef, ast.AsyncFunctionDef)) and n.name == name]
    if len(fs) != 1 or not isinstance(fs[0], ast.FunctionDef) or fs[0].decorator_list:
        raise Unsupported("plain function %s" % name)
    return fs[0]


def body_of(fn):
    b = fn.body
    if b and isinstance(b[0], ast.Expr) and isinstance(b[0].value, ast.Constant) and isinstance(b[0].value.value, str):
        b = b[1:]
    return b


def argnames(fn):
    a = fn.args
    if a.vararg or a.kwarg or a.kwonlyargs or a.posonlyargs or a.defaults:
        raise Unsupported("signature of " + fn.name)
    return [x.arg for x in a.args]


def expect_text(node_or_nodes, text, what):
    got = "\n".join(ast.unparse(n) for n in node_or_nodes) if isinstance(node_or_nodes, list) else ast.unparse(node_or_nodes)
    if got != text:
        raise Unsupported("%s changed:\n%s" % (what, got))


PA = {
    "self.connection.context._apply_xheaders(headers)": "PApply",
    "self._cleanup()": "PCleanup",
}


def pa_steps(fn, delegate_call):
    out = []
    for s in body_of(fn):
        if isinstance(s, ast.Return) and s.value is not None:
            t = ast.unparse(s.value)
            last = True
        elif isinstance(s, ast.Expr):
            t = ast.unparse(s.value)
            last = False
        else:
            raise Unsupported("_ProxyAdapter.%s: statement %s" % (fn.name, type(s).__name__))
        if t == delegate_call:
            out.append("PDelegate")
        elif t in PA:
            out.append(PA[t])
        else:
            raise Unsupported("_ProxyAdapter.%s: %s" % (fn.name, t))
        if last and s is not body_of(fn)[-1]:
            raise Unsupported("return before the end of _ProxyAdapter.%s" % fn.name)
    return "[" + "; ".join(out) + "]"


GUARD_ATOMS = {"not ip": "GEmpty", "'\\x00' in ip": "GHasNul", "not ip.isascii()": "GNotAscii"}

IS_VALID_IP_REST = """try:
    res = socket.getaddrinfo(ip, 0, socket.AF_UNSPEC, socket.SOCK_STREAM, 0, socket.AI_NUMERICHOST)
    return bool(res)
except socket.gaierror as e:
    if e.args[0] == socket.EAI_NONAME:
        return False
    raise
except UnicodeError:
    return False
return True"""

INIT_TAIL = """self._orig_remote_ip = self.remote_ip
self._orig_protocol = self.protocol
self.trusted_downstream = set(trusted_downstream or [])"""

START_REQUEST_TAIL = """if self.xheaders:
    delegate = _ProxyAdapter(delegate, request_conn)
return delegate"""


def translate(repo):
    hs = ast.parse(open(os.path.join(repo, "tornado", "httpserver.py")).read())
    nu = ast.parse(open(os.path.join(repo, "tornado", "netutil.py")).read())
    ctx = find_class(hs, "_HTTPRequestContext")
    ap = find_fn(ctx.body, "_apply_xheaders")
    if argnames(ap) != ["self", "headers"]:
        raise Unsupported("signature of _apply_xheaders")
    un = find_fn(ctx.body, "_unapply_xheaders")
    if argnames(un) != ["self"]:
        raise Unsupported("signature of _unapply_xheaders")
    src_apply = stmts(body_of(ap))
    src_unapply = stmts(body_of(un))
    init = find_fn(ctx.body, "__init__")
    expect_text(body_of(init)[-3:], INIT_TAIL, "_HTTPRequestContext.__init__ (saved originals)")
    # nobody else writes remote_ip / protocol of the context
    writers = set()
    for cls in [n for n in hs.body if isinstance(n, ast.ClassDef)]:
        for fn in [n for n in cls.body if isinstance(n, (ast.FunctionDef, ast.AsyncFunctionDef))]:
            for n in ast.walk(fn):
                if isinstance(n, (ast.Assign, ast.AugAssign, ast.AnnAssign)):
                    for t in (n.targets if isinstance(n, ast.Assign) else [n.target]):
                        for a in ast.walk(t):
                            if isinstance(a, ast.Attribute) and a.attr in ("remote_ip", "protocol", "_orig_remote_ip", "_orig_protocol"):
                                writers.add((cls.name, fn.name, ast.unparse(a)))
    expected_writers = {("HTTPServer", "initialize", "self.protocol"),
                        ("_HTTPRequestContext", "__init__", "self._orig_protocol"), ("_HTTPRequestContext", "__init__", "self._orig_remote_ip"),
                        ("_HTTPRequestContext", "__init__", "self.protocol"), ("_HTTPRequestContext", "__init__", "self.remote_ip"),
                        ("_HTTPRequestContext", "_apply_xheaders", "self.protocol"), ("_HTTPRequestContext", "_apply_xheaders", "self.remote_ip"),
                        ("_HTTPRequestContext", "_unapply_xheaders", "self.protocol"), ("_HTTPRequestContext", "_unapply_xheaders", "self.remote_ip")}
    if writers != expected_writers:
        raise Unsupported("assignments to remote_ip/protocol in httpserver.py changed: %r" % (sorted(writers ^ expected_writers),))
    # _ProxyAdapter
    pa = find_class(hs, "_ProxyAdapter")
    hr = find_fn(pa.body, "headers_received")
    if argnames(hr) != ["self", "start_line", "headers"]:
        raise Unsupported("signature of _ProxyAdapter.headers_received")
    src_hr = pa_steps(hr, "self.delegate.headers_received(start_line, headers)")
    src_fin = pa_steps(find_fn(pa.body, "finish"), "self.delegate.finish()")
    src_occ = pa_steps(find_fn(pa.body, "on_connection_close"), "self.delegate.on_connection_close()")
    expect_text(body_of(find_fn(pa.body, "_cleanup")), "self.connection.context._unapply_xheaders()", "_ProxyAdapter._cleanup")
    expect_text(body_of(find_fn(pa.body, "data_received")), "return self.delegate.data_received(chunk)", "_ProxyAdapter.data_received")
    names = sorted(n.name for n in pa.body if isinstance(n, (ast.FunctionDef, ast.AsyncFunctionDef)))
    if names != sorted(["__init__", "headers_received", "data_received", "finish", "on_connection_close", "_cleanup"]):
        raise Unsupported("methods of _ProxyAdapter: %r" % names)
    srv = find_class(hs, "HTTPServer")
    expect_text(body_of(find_fn(srv.body, "start_request"))[-2:], START_REQUEST_TAIL, "HTTPServer.start_request")
    # is_valid_ip
    fn = find_fn(nu.body, "is_valid_ip")
    if argnames(fn) != ["ip"]:
        raise Unsupported("signature of is_valid_ip")
    b = body_of(fn)
    g = b[0]
    if not (isinstance(g, ast.If) and not g.orelse and len(g.body) == 1 and ast.unparse(g.body[0]) == "return False"):
        raise Unsupported("first statement of is_valid_ip")
    atoms = g.test.values if (isinstance(g.test, ast.BoolOp) and isinstance(g.test.op, ast.Or)) else [g.test]
    src_guard = []
    for a in atoms:
        t = ast.unparse(a)
        if t not in GUARD_ATOMS:
            raise Unsupported("guard atom of is_valid_ip: " + t)
        src_guard.append(GUARD_ATOMS[t])
    expect_text(b[1:], IS_VALID_IP_REST, "is_valid_ip after the guard")
    return {"src_apply": ("list stmt", src_apply), "src_unapply": ("list stmt", src_unapply),
            "src_guard": ("list guard_atom", "[" + "; ".join(src_guard) + "]"),
            "src_pa_headers_received": ("list pa_step", src_hr), "src_pa_finish": ("list pa_step", src_fin),
            "src_pa_on_connection_close": ("list pa_step", src_occ)}


def emit(repo, out_path):
    defs = translate(repo)      # raises Unsupported: the check reports a broken obligation
    text = ("(* GENERATED by translators/c32_src.py from tornado/httpserver.py and tornado/netutil.py — do not edit *)\n"
            "From Coq Require Import List NArith.\nImport ListNotations.\nFrom TV Require Import C32.Model C32.Ast.\n")
    for name, (ty, term) in defs.items():
        text += "Definition %s : %s :=\n    %s.\n" % (name, ty, term)
    old = open(out_path).read() if os.path.exists(out_path) else None
    if old != text:
        open(out_path, "w").write(text)


if __name__ == "__main__":
    repo = sys.argv[1] if len(sys.argv) > 1 else "/repo"
    for k, (ty, term) in translate(repo).items():
        print(k, ":", ty, ":=\n   ", term)
