#!/venv/bin/python
"""Fail-closed translator for C41: reads tornado/process.py::fork_processes from the working
tree with `ast` and emits coq/Gen/C41_src.v:

  src_desc     : fp_desc   the DECISIONS of the function (coq/C41/Model.v, record fp_desc):
                           default restart budget, the `num_processes <= k` bound, the
                           if/elif/else chain that classifies a wait status (tests, in order, and
                           what each branch does), the comparison guarding RuntimeError, the
                           argument of sys.exit
  src_skeleton : string    everything else in the function body, normalised by ast.unparse, with
                           the extracted pieces replaced by <markers>

coq/Gen/C41_equiv.v proves src_desc = desc_expected and src_skeleton = expected_skeleton
(coq/C41/SrcExpected.v) by reflexivity, and coq/C41/Run.v runs the model ON src_desc, so a
change of a decision shows up both as a broken obligation and in the correspondence.
Anything outside the recognised shapes raises Unsupported (= broken obligation)."""
import ast
import os
import sys


class Unsupported(Exception):
    pass


TESTS = {
    "os.WIFSIGNALED(status)": "TSignaled",
    "os.WEXITSTATUS(status) != 0": "TExitNonzero",
    "os.WEXITSTATUS(status) == 0": "TExitZero",
}
BODIES = {
    ("gen_log.warning('child %d (pid %d) killed by signal %d, restarting', id, pid, os.WTERMSIG(status))",): "ARestartSignal",
    ("gen_log.warning('child %d (pid %d) exited with status %d, restarting', id, pid, os.WEXITSTATUS(status))",): "ARestartStatus",
    ("gen_log.info('child %d (pid %d) exited normally', id, pid)", "continue"): "ANormal",
}


def u(n):
    return ast.unparse(n)


def small_int(n, what):
    if not (isinstance(n, ast.Constant) and type(n.value) is int and abs(n.value) < 2 ** 31):
        raise Unsupported("%s: expected a small int literal, got %s" % (what, u(n)))
    return n.value


def action(body):
    key = tuple(u(s) for s in body)
    if key not in BODIES:
        raise Unsupported("branch body not recognised: %r" % (key,))
    return BODIES[key]


def chain(node):
    """if / elif ... / else  ->  ([(test, action)], else_action)"""
    out = []
    while True:
        t = u(node.test)
        if t not in TESTS:
            raise Unsupported("status test not recognised: " + t)
        out.append((TESTS[t], action(node.body)))
        if len(node.orelse) == 1 and isinstance(node.orelse[0], ast.If):
            node = node.orelse[0]
            continue
        if not node.orelse:
            raise Unsupported("classification chain without else")
        return out, action(node.orelse)


def z(i):
    return "(%d)%%Z" % i


def translate(src):
    tree = ast.parse(src)
    fns = [n for n in tree.body if isinstance(n, ast.FunctionDef) and n.name == "fork_processes"]
    if len(fns) != 1:
        raise Unsupported("fork_processes not found")
    fn = fns[0]
    if fn.decorator_list:
        raise Unsupported("decorators")
    a = fn.args
    if [x.arg for x in a.args] != ["num_processes", "max_restarts"] or a.vararg or a.kwarg or a.kwonlyargs or a.posonlyargs \
            or [u(d) for d in a.defaults] != ["None"]:
        raise Unsupported("signature of fork_processes")
    body = list(fn.body)
    if body and isinstance(body[0], ast.Expr) and isinstance(body[0].value, ast.Constant) and isinstance(body[0].value.value, str):
        body = body[1:]
    skel = []
    d = {}
    for s in body:
        # if max_restarts is None: max_restarts = <int>
        if isinstance(s, ast.If) and u(s.test) == "max_restarts is None":
            if len(s.body) != 1 or s.orelse or not isinstance(s.body[0], ast.Assign) or u(s.body[0].targets[0]) != "max_restarts" \
                    or len(s.body[0].targets) != 1 or "default" in d:
                raise Unsupported("max_restarts default: " + u(s))
            d["default"] = small_int(s.body[0].value, "default max_restarts")
            skel.append("<DEFAULT_RESTARTS>")
        # if num_processes is None or num_processes <= <int>: num_processes = cpu_count()
        elif isinstance(s, ast.If) and isinstance(s.test, ast.BoolOp) and u(s.test).startswith("num_processes is None"):
            t = s.test
            if not (isinstance(t.op, ast.Or) and len(t.values) == 2 and u(t.values[0]) == "num_processes is None"
                    and isinstance(t.values[1], ast.Compare) and u(t.values[1].left) == "num_processes"
                    and len(t.values[1].ops) == 1 and isinstance(t.values[1].ops[0], ast.LtE)
                    and [u(x) for x in s.body] == ["num_processes = cpu_count()"] and not s.orelse and "bound" not in d):
                raise Unsupported("num_processes default: " + u(s))
            d["bound"] = small_int(t.values[1].comparators[0], "num_processes bound")
            skel.append("<CPU_COUNT_RULE>")
        elif isinstance(s, ast.While):
            if u(s.test) != "children" or s.orelse or "chain" in d:
                raise Unsupported("while loop: " + u(s.test))
            skel.append("while children:")
            for w in s.body:
                if isinstance(w, ast.If) and "status" in u(w.test) and "chain" not in d:
                    d["chain"], d["else"] = chain(w)
                    skel.append("    <CLASSIFY>")
                elif isinstance(w, ast.If) and u(w.test).startswith("num_restarts"):
                    t = w.test
                    if not (isinstance(t, ast.Compare) and u(t.left) == "num_restarts" and len(t.ops) == 1
                            and u(t.comparators[0]) == "max_restarts" and type(t.ops[0]) in (ast.Gt, ast.GtE)
                            and [u(x) for x in w.body] == ["raise RuntimeError('Too many child restarts, giving up')"]
                            and not w.orelse and "cmp" not in d):
                        raise Unsupported("budget test: " + u(w))
                    d["cmp"] = "CGt" if isinstance(t.ops[0], ast.Gt) else "CGe"
                    skel.append("    <BUDGET_TEST>")
                else:
                    skel.extend("    " + line for line in u(w).split("\n"))
        elif isinstance(s, ast.Expr) and u(s).startswith("sys.exit("):
            c = s.value
            if not (isinstance(c, ast.Call) and len(c.args) == 1 and not c.keywords) or "exit" in d:
                raise Unsupported("sys.exit call: " + u(s))
            d["exit"] = small_int(c.args[0], "sys.exit argument")
            skel.append("<SYS_EXIT>")
        else:
            skel.extend(u(s).split("\n"))
    missing = [k for k in ("default", "bound", "chain", "else", "cmp", "exit") if k not in d]
    if missing:
        raise Unsupported("pieces not found: %r" % missing)
    text = "\n".join(skel)
    if not all(c == "\n" or 32 <= ord(c) < 127 for c in text):
        raise Unsupported("non-ASCII text in fork_processes")
    # task_id() must still just return the global
    tid = [n for n in tree.body if isinstance(n, ast.FunctionDef) and n.name == "task_id"]
    if len(tid) != 1 or [u(x) for x in tid[0].body if not (isinstance(x, ast.Expr) and isinstance(x.value, ast.Constant))] != ["return _task_id"]:
        raise Unsupported("task_id() is no longer `return _task_id`")
    desc = ("{| d_default_restarts := %s; d_cpu_bound := %s;\n     d_chain := [%s];\n     d_else := %s; d_budget_cmp := %s; d_exit_code := %s |}"
            % (z(d["default"]), z(d["bound"]), "; ".join("(%s, %s)" % ta for ta in d["chain"]), d["else"], d["cmp"], z(d["exit"])))
    return desc, text


def coq_string(text):
    return '"' + text.replace('"', '""') + '"'


def emit(repo, out_path):
    desc, text = translate(open(os.path.join(repo, "tornado", "process.py")).read())
    out = ("(* GENERATED by translators/c41_src.py from tornado/process.py (fork_processes) - do not edit *)\n"
           "From Coq Require Import List ZArith String.\nImport ListNotations.\nFrom TV Require Import C41.Model.\n"
           "Definition src_desc : fp_desc :=\n  %s.\n"
           "Definition src_skeleton : string :=\n%s%%string.\n" % (desc, coq_string(text)))
    old = open(out_path).read() if os.path.exists(out_path) else None
    if old != out:
        open(out_path, "w").write(out)


if __name__ == "__main__":
    repo = sys.argv[1] if len(sys.argv) > 1 else "/repo"
    desc, text = translate(open(os.path.join(repo, "tornado", "process.py")).read())
    print(desc)
    print(text)
