#!/venv/bin/python
"""Fail-closed reader for C07: uses the `ast` module on tornado/web.py, tornado/http1connection.py and
tornado/httputil.py and emits coq/C07/SrcGen.v with

  * the character classes of the regular expressions that guard header data, as sorted, merged
    code-point ranges:  RequestHandler._VALID_HEADER_CHARS, http1connection._FIELD_VALUE_CHARS_RE,
    _ABNF.reason_phrase, _ABNF.field_name (tchar), the two set_cookie classes, CR_OR_LF_RE;
  * the quantifier of each pattern ('*' / '+' / one char) and the order of the set_cookie attribute loop;
  * a fingerprint check (normalised `ast.unparse`, exception messages dropped) of the statements that
    APPLY those guards: the validation tail of HTTP1Connection.write_headers (reason check, name/value
    loop, latin-1 encoding, CR/LF guard over ALL lines, CRLF join), _convert_header_value, the reason
    test of set_status and the head of set_cookie.  The emitted `src_guard_shape` lists the guards found.

Anything outside the handled regex subset ([...] classes with literals, \\t \\r \\n \\xNN \\- escapes and
ranges; (?:A|B|..)+ of classes; '|' of single characters) or any difference in the pinned statements
raises Unsupported: the check then reports a broken proof obligation."""
import ast
import os
import re


class Unsupported(Exception):
    pass


# ------------------------------------------------------------------ tiny regex subset
def _class_items(body):
    """body of a [...] class -> list of (lo, hi)"""
    out, i, n = [], 0, len(body)
    if body.startswith("^"):
        raise Unsupported("negated class")

    def atom(i):
        c = body[i]
        if c == "\\":
            if i + 1 >= n:
                raise Unsupported("dangling backslash")
            e = body[i + 1]
            if e == "x":
                h = body[i + 2:i + 4]
                if not re.fullmatch(r"[0-9A-Fa-f]{2}", h):
                    raise Unsupported("bad \\x escape")
                return int(h, 16), i + 4
            if e in "trn":
                return {"t": 9, "r": 13, "n": 10}[e], i + 2
            if e in "-.\\]^":
                return ord(e), i + 2
            raise Unsupported("escape \\%s" % e)
        if c in "[]":
            raise Unsupported("bracket inside class")
        return ord(c), i + 1

    while i < n:
        lo, i = atom(i)
        if i < n and body[i] == "-" and i + 1 < n:
            hi, i = atom(i + 1)
            if hi < lo:
                raise Unsupported("reversed range")
            out.append((lo, hi))
        else:
            out.append((lo, lo))
    return out


def _merge(rs):
    rs = sorted(rs)
    out = []
    for lo, hi in rs:
        if out and lo <= out[-1][1] + 1:
            out[-1] = (out[-1][0], max(out[-1][1], hi))
        else:
            out.append((lo, hi))
    return out


def parse_pattern(p):
    """-> (ranges, quantifier) for:  [cls]  [cls]*  [cls]+  (?:[a]|[b]|..)+  and  x|y  of single characters"""
    m = re.fullmatch(r"\[((?:[^\]\\]|\\.)*)\]([*+]?)", p, re.S)
    if m:
        return _merge(_class_items(m.group(1))), m.group(2) or "1"
    m = re.fullmatch(r"\(\?:(.*)\)([*+])", p, re.S)
    if m:
        alts, rs = m.group(1).split("|"), []
        for a in alts:
            ma = re.fullmatch(r"\[((?:[^\]\\]|\\.)*)\]", a, re.S)
            if not ma:
                raise Unsupported("alternative %r" % a)
            rs += _class_items(ma.group(1))
        return _merge(rs), m.group(2)
    if re.fullmatch(r".(\|.)+", p, re.S):
        return _merge([(ord(c), ord(c)) for c in p.split("|")]), "1"
    raise Unsupported("pattern %r" % p)


# ------------------------------------------------------------------ ast helpers
def _const_pattern(node, env=None):
    """the pattern string of re.compile(<str | bytes | f-string over NAME.pattern>)"""
    if not (isinstance(node, ast.Call) and ast.unparse(node.func) == "re.compile" and len(node.args) == 1 and not node.keywords):
        raise Unsupported("re.compile call expected: " + ast.unparse(node)[:80])
    a = node.args[0]
    if isinstance(a, ast.Constant) and isinstance(a.value, str):
        return a.value
    if isinstance(a, ast.Constant) and isinstance(a.value, bytes):
        return a.value.decode("latin-1")
    if isinstance(a, ast.JoinedStr) and env is not None:
        out = ""
        for v in a.values:
            if isinstance(v, ast.Constant) and isinstance(v.value, str):
                out += v.value
            elif (isinstance(v, ast.FormattedValue) and v.conversion == -1 and v.format_spec is None
                  and isinstance(v.value, ast.Attribute) and v.value.attr == "pattern"
                  and isinstance(v.value.value, ast.Name) and v.value.value.id in env):
                out += env[v.value.value.id]
            else:
                raise Unsupported("f-string part " + ast.dump(v)[:80])
        return out
    raise Unsupported("pattern argument " + ast.dump(a)[:80])


def _module_assign(tree, name):
    hits = [n for n in tree.body if isinstance(n, ast.Assign) and len(n.targets) == 1
            and isinstance(n.targets[0], ast.Name) and n.targets[0].id == name]
    if len(hits) != 1:
        raise Unsupported("module constant %s" % name)
    return hits[0].value


def _class(tree, name):
    cs = [n for n in tree.body if isinstance(n, ast.ClassDef) and n.name == name]
    if len(cs) != 1:
        raise Unsupported("class %s" % name)
    return cs[0]


def _method(cls, name):
    fs = [n for n in cls.body if isinstance(n, ast.FunctionDef) and n.name == name]
    if len(fs) != 1:
        raise Unsupported("method %s" % name)
    return fs[0]


class _DropMessages(ast.NodeTransformer):
    def visit_Raise(self, node):
        exc = node.exc
        if isinstance(exc, ast.Call):
            exc = ast.Call(func=exc.func, args=[], keywords=[])
        return ast.copy_location(ast.Raise(exc=exc, cause=None), node)


def _norm(stmts):
    out = []
    for s in stmts:
        if isinstance(s, ast.Expr) and isinstance(s.value, ast.Constant) and isinstance(s.value.value, str):
            continue          # docstring
        t = _DropMessages().visit(ast.parse(ast.unparse(s)))
        out.append(ast.unparse(ast.fix_missing_locations(t)))
    return out


WRITE_HEADERS_TAIL = [
    "if not self.is_client and start_line[2]:\n    if not httputil._ABNF.reason_phrase.fullmatch(start_line[2]):\n        raise ValueError()",
    "for n, v in headers.get_all():\n    if not httputil._ABNF.field_name.fullmatch(native_str(n)):\n        raise ValueError()\n"
    "    if not _FIELD_VALUE_CHARS_RE.fullmatch(native_str(v)):\n        raise ValueError()",
    "header_lines = (native_str(n) + ': ' + native_str(v) for n, v in headers.get_all())",
    "lines.extend((line.encode('latin1') for line in header_lines))",
    "for line in lines:\n    if CR_OR_LF_RE.search(line):\n        raise ValueError()",
    "future = None",
]
WRITE_HEADERS_SEND = "data = b'\\r\\n'.join(lines) + b'\\r\\n\\r\\n'"
WRITE_HEADERS_START = "lines.append(utf8('HTTP/1.1 %d %s' % (start_line[1], start_line[2])))"
CONVERT = [
    "if isinstance(value, str):\n    retval = value\nelif isinstance(value, bytes):\n    retval = value.decode('latin1')\n"
    "elif isinstance(value, numbers.Integral):\n    return str(value)\nelif isinstance(value, datetime.datetime):\n"
    "    return httputil.format_timestamp(value)\nelse:\n    raise TypeError()",
    "if RequestHandler._VALID_HEADER_CHARS.fullmatch(retval) is None:\n    raise ValueError()",
    "return retval",
]
SET_STATUS_TEST = "'<' in reason or not httputil._ABNF.reason_phrase.fullmatch(reason)"
SET_COOKIE_HEAD = [
    "name = escape.native_str(name)",
    "value = escape.native_str(value)",
]


def read(repo):
    src = lambda f: ast.parse(open(os.path.join(repo, "tornado", f)).read())
    web, h1, hu = src("web.py"), src("http1connection.py"), src("httputil.py")
    out = {}

    # --- httputil._ABNF
    abnf, env = _class(hu, "_ABNF"), {}
    for n in abnf.body:
        if isinstance(n, ast.Assign) and len(n.targets) == 1 and isinstance(n.targets[0], ast.Name):
            tgt = n.targets[0].id
            if isinstance(n.value, ast.Name) and n.value.id in env:
                env[tgt] = env[n.value.id]
            else:
                try:
                    env[tgt] = _const_pattern(n.value, env)
                except Unsupported:
                    pass       # attributes we do not need may use other constructs
    for k in ("reason_phrase", "field_name", "tchar"):
        if k not in env:
            raise Unsupported("_ABNF.%s" % k)
    out["reason_phrase"] = parse_pattern(env["reason_phrase"])
    out["field_name"] = parse_pattern(env["field_name"])

    # --- http1connection constants and write_headers
    out["field_value_chars"] = parse_pattern(_const_pattern(_module_assign(h1, "_FIELD_VALUE_CHARS_RE")))
    out["cr_or_lf"] = parse_pattern(_const_pattern(_module_assign(h1, "CR_OR_LF_RE")))
    wh = _method(_class(h1, "HTTP1Connection"), "write_headers")
    body = _norm(wh.body)
    try:
        k = body.index(WRITE_HEADERS_TAIL[0])
    except ValueError:
        raise Unsupported("write_headers: reason-phrase guard not found")
    if body[k:k + len(WRITE_HEADERS_TAIL)] != WRITE_HEADERS_TAIL:
        raise Unsupported("write_headers: validation tail differs:\n" + "\n---\n".join(body[k:k + len(WRITE_HEADERS_TAIL)]))
    whole = "\n".join(body)
    if whole.count(WRITE_HEADERS_SEND) != 1 or whole.index(WRITE_HEADERS_SEND) < whole.index(WRITE_HEADERS_TAIL[4]):
        raise Unsupported("write_headers: CRLF join not found after the guards")
    if whole.count(WRITE_HEADERS_START) != 1 or whole.index(WRITE_HEADERS_START) > whole.index(WRITE_HEADERS_TAIL[0]):
        raise Unsupported("write_headers: response start line")

    # --- web.py
    rh = _class(web, "RequestHandler")
    vh = [n for n in rh.body if isinstance(n, ast.Assign) and isinstance(n.targets[0], ast.Name) and n.targets[0].id == "_VALID_HEADER_CHARS"]
    if len(vh) != 1:
        raise Unsupported("_VALID_HEADER_CHARS")
    out["valid_header_chars"] = parse_pattern(_const_pattern(vh[0].value))
    if _norm(_method(rh, "_convert_header_value").body) != CONVERT:
        raise Unsupported("_convert_header_value differs:\n" + "\n---\n".join(_norm(_method(rh, "_convert_header_value").body)))
    ss = _norm(_method(rh, "set_status").body)
    if len(ss) != 2 or not ss[1].startswith("if reason is not None:\n    if " + SET_STATUS_TEST + ":\n        reason = 'Unknown'\n    self._reason = escape.native_str(reason)\nelse:"):
        raise Unsupported("set_status differs:\n" + "\n---\n".join(ss))
    sc = _method(rh, "set_cookie")
    scb = _norm(sc.body)
    if scb[:2] != SET_COOKIE_HEAD:
        raise Unsupported("set_cookie head differs")
    # value check:  if re.search(r"[..]", value): raise ValueError
    st = [s for s in sc.body if not (isinstance(s, ast.Expr) and isinstance(s.value, ast.Constant))]
    chk = st[2]
    if not (isinstance(chk, ast.If) and isinstance(chk.test, ast.Call) and ast.unparse(chk.test.func) == "re.search"
            and len(chk.test.args) == 2 and ast.unparse(chk.test.args[1]) == "value"
            and isinstance(chk.test.args[0], ast.Constant) and isinstance(chk.test.args[0].value, str)
            and len(chk.body) == 1 and isinstance(chk.body[0], ast.Raise) and not chk.orelse
            and ast.unparse(chk.body[0].exc.func) == "ValueError"):
        raise Unsupported("set_cookie value check")
    out["cookie_value_bad"] = parse_pattern(chk.test.args[0].value)
    loop = st[3]
    if not (isinstance(loop, ast.For) and ast.unparse(loop.target) == "(attr_name, attr_value)" and isinstance(loop.iter, ast.List)
            and len(loop.body) == 1 and isinstance(loop.body[0], ast.If) and not loop.orelse):
        raise Unsupported("set_cookie attribute loop")
    order = []
    for e in loop.iter.elts:
        if not (isinstance(e, ast.Tuple) and len(e.elts) == 2 and isinstance(e.elts[0], ast.Constant)
                and isinstance(e.elts[1], ast.Name) and e.elts[0].value == e.elts[1].id):
            raise Unsupported("set_cookie attribute list")
        order.append(e.elts[0].value)
    t = loop.body[0].test
    if not (isinstance(t, ast.BoolOp) and isinstance(t.op, ast.And) and len(t.values) == 2
            and ast.unparse(t.values[0]) == "attr_value is not None"
            and isinstance(t.values[1], ast.Call) and ast.unparse(t.values[1].func) == "re.search"
            and ast.unparse(t.values[1].args[1]) == "attr_value" and isinstance(t.values[1].args[0], ast.Constant)
            and len(loop.body[0].body) == 1 and isinstance(loop.body[0].body[0], ast.Raise)
            and ast.unparse(loop.body[0].body[0].exc.func) == "http.cookies.CookieError"):
        raise Unsupported("set_cookie attribute check")
    out["cookie_attr_bad"] = parse_pattern(t.values[1].args[0].value)
    out["cookie_attr_order"] = order
    return out


def _ranges(rs):
    return "[" + "; ".join("(%d, %d)" % r for r in rs) + "]" if rs else "(@nil (N * N))"


def text(repo):
    d = read(repo)
    L = ["(* GENERATED by translators/c07_src.py from tornado/web.py, http1connection.py, httputil.py: do not edit. *)",
         "From Coq Require Import List NArith String.", "Import ListNotations.", "Local Open Scope N_scope.",
         "Inductive quant := QOne | QStar | QPlus."]
    q = {"1": "QOne", "*": "QStar", "+": "QPlus"}
    for k in ("valid_header_chars", "field_value_chars", "reason_phrase", "field_name", "cookie_value_bad", "cookie_attr_bad", "cr_or_lf"):
        rs, qq = d[k]
        L.append("Definition src_%s : list (N * N) := %s." % (k, _ranges(rs)))
        L.append("Definition src_%s_q : quant := %s." % (k, q[qq]))
    L.append("Definition src_cookie_attr_order : list string := [%s]%%string." % "; ".join('"%s"' % a for a in d["cookie_attr_order"]))
    L.append("(* guards found, in order, in the tail of HTTP1Connection.write_headers *)")
    L.append('Definition src_guard_shape : list string := ["reason_phrase(non-empty reason)"; "field_name(name) then field_value_chars(value), per pair"; '
             '"latin1"; "cr_or_lf over ALL lines"; "CRLF join + CRLF CRLF"]%string.')
    return "\n".join(L) + "\n"


def emit(repo, path):
    txt = text(repo)
    if not os.path.exists(path) or open(path).read() != txt:
        with open(path, "w") as f:
            f.write(txt)


if __name__ == "__main__":
    import sys
    print(text(sys.argv[1] if len(sys.argv) > 1 else "/repo"))
