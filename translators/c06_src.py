#!/venv/bin/python
"""Fail-closed translator for C06: reads tornado/httputil.py with the `ast` module and emits
coq/Gen/C06_src.v:

  src_normalize      -- the body of _normalize_header, translated expression by expression into the
                        Python-string primitives of coq/C06/Model.v (split_on, capitalize, join)
  src_ws             -- the constant HTTP_WHITESPACE
  src_tchar_ranges, src_vchar_ranges, src_obs_ranges, src_fv_extra
                     -- the character classes of _ABNF.tchar / VCHAR / obs_text and the two extra
                        characters allowed inside a field value, parsed out of the regex sources
  (the *shape* of the composed patterns field_vchar / field_value / token / field_name and of the
   fullmatch calls in HTTPHeaders.add is checked against fixed templates: any other shape raises)

Only the shapes handled below are accepted; anything else raises Unsupported, which the check treats as
a broken obligation.  coq/Gen/C06_equiv.v proves the emitted definitions equal, for every input, to the
hand-written ones of coq/C06/Model.v (normalize, is_ws, is_tchar, is_vchar, is_fv_char)."""
import ast
import os
import sys


class Unsupported(Exception):
    pass


def one_char(node):
    if isinstance(node, ast.Constant) and isinstance(node.value, str) and len(node.value) == 1 and 32 <= ord(node.value) < 127:
        return ord(node.value)
    raise Unsupported("one-character ASCII string constant expected: " + ast.dump(node))


def strip_doc(body):
    if body and isinstance(body[0], ast.Expr) and isinstance(body[0].value, ast.Constant) and isinstance(body[0].value.value, str):
        return body[1:]
    return body


# ------------------------------------------------------------------ _normalize_header
def tr_str_expr(e, env):
    """expression of type str / list[str] over the variables in env -> (gallina, type)"""
    if isinstance(e, ast.Name) and isinstance(e.ctx, ast.Load):
        if e.id not in env:
            raise Unsupported("unbound name " + e.id)
        return e.id, env[e.id]
    if isinstance(e, ast.Call) and isinstance(e.func, ast.Attribute) and not e.keywords:
        meth = e.func.attr
        recv = e.func.value
        if meth == "join" and len(e.args) == 1:
            sep = one_char(recv)
            a, ta = tr_str_expr(e.args[0], env)
            if ta != "list":
                raise Unsupported("join over a non-list")
            return "(join [%d%%N] %s)" % (sep, a), "str"
        if meth == "split" and len(e.args) == 1:
            r, tr = tr_str_expr(recv, env)
            if tr != "str":
                raise Unsupported("split of a non-str")
            return "(split_on %d%%N %s)" % (one_char(e.args[0]), r), "list"
        if meth == "capitalize" and len(e.args) == 0:
            r, tr = tr_str_expr(recv, env)
            if tr != "str":
                raise Unsupported("capitalize of a non-str")
            return "(capitalize %s)" % r, "str"
        raise Unsupported("method call " + ast.dump(e))
    if isinstance(e, ast.ListComp):
        if len(e.generators) != 1:
            raise Unsupported("comprehension with several generators")
        g = e.generators[0]
        if g.ifs or g.is_async or not isinstance(g.target, ast.Name):
            raise Unsupported("comprehension shape")
        it, ti = tr_str_expr(g.iter, env)
        if ti != "list":
            raise Unsupported("comprehension over a non-list")
        v = g.target.id
        if v in env:
            raise Unsupported("comprehension variable shadows " + v)
        body, tb = tr_str_expr(e.elt, dict(env, **{v: "str"}))
        if tb != "str":
            raise Unsupported("comprehension element is not a str")
        return "(map (fun %s : text => %s) %s)" % (v, body, it), "list"
    raise Unsupported("expression " + ast.dump(e))


def tr_normalize(tree):
    fs = [n for n in tree.body if isinstance(n, ast.FunctionDef) and n.name == "_normalize_header"]
    if len(fs) != 1:
        raise Unsupported("_normalize_header not found exactly once")
    f = fs[0]
    a = f.args
    if len(a.args) != 1 or a.vararg or a.kwarg or a.kwonlyargs or a.posonlyargs or a.defaults:
        raise Unsupported("_normalize_header signature")
    # the only decorator allowed is a cache (semantically transparent for a pure function)
    for d in f.decorator_list:
        if not (isinstance(d, ast.Call) and isinstance(d.func, ast.Name) and d.func.id == "lru_cache"):
            raise Unsupported("decorator " + ast.dump(d))
    body = strip_doc(f.body)
    if len(body) != 1 or not isinstance(body[0], ast.Return) or body[0].value is None:
        raise Unsupported("_normalize_header body must be a single return, got %d statements" % len(body))
    arg = a.args[0].arg
    term, ty = tr_str_expr(body[0].value, {arg: "str"})
    if ty != "str":
        raise Unsupported("_normalize_header does not return a str")
    return "Definition src_normalize (%s : text) : text :=\n  %s.\n" % (arg, term)


# ------------------------------------------------------------------ constants and regex classes
def module_const(tree, name):
    vs = [n for n in tree.body if isinstance(n, ast.Assign) and len(n.targets) == 1 and isinstance(n.targets[0], ast.Name)
          and n.targets[0].id == name]
    if len(vs) != 1:
        raise Unsupported("module constant %s not assigned exactly once" % name)
    return vs[0].value


def abnf_attrs(tree):
    cs = [n for n in tree.body if isinstance(n, ast.ClassDef) and n.name == "_ABNF"]
    if len(cs) != 1:
        raise Unsupported("class _ABNF")
    out = {}
    for n in cs[0].body:
        if isinstance(n, ast.Assign) and len(n.targets) == 1 and isinstance(n.targets[0], ast.Name):
            if n.targets[0].id in out:
                raise Unsupported("_ABNF.%s assigned twice" % n.targets[0].id)
            out[n.targets[0].id] = n.value
    return out


def template(node):
    """re.compile(<str or f-string>) -> the pattern with {X} for every interpolated X.pattern; a bare Name -> '=Name'"""
    if isinstance(node, ast.Name):
        return "=" + node.id
    if not (isinstance(node, ast.Call) and isinstance(node.func, ast.Attribute) and node.func.attr == "compile"
            and isinstance(node.func.value, ast.Name) and node.func.value.id == "re" and len(node.args) == 1 and not node.keywords):
        raise Unsupported("re.compile(pattern) expected: " + ast.dump(node))
    p = node.args[0]
    if isinstance(p, ast.Constant) and isinstance(p.value, str):
        return p.value.replace("{", "{{")
    if isinstance(p, ast.JoinedStr):
        out = []
        for v in p.values:
            if isinstance(v, ast.Constant) and isinstance(v.value, str):
                out.append(v.value.replace("{", "{{"))
            elif (isinstance(v, ast.FormattedValue) and v.conversion == -1 and v.format_spec is None
                  and isinstance(v.value, ast.Attribute) and v.value.attr == "pattern" and isinstance(v.value.value, ast.Name)):
                out.append("{" + v.value.value.id + "}")
            else:
                raise Unsupported("f-string part " + ast.dump(v))
        return "".join(out)
    raise Unsupported("pattern " + ast.dump(p))


def parse_class(pat):
    """'[...]' with literals, \\xHH, \\- and a-b ranges (no negation, no other escapes) -> sorted list of (lo, hi)"""
    if len(pat) < 3 or pat[0] != "[" or pat[-1] != "]" or pat[1] == "^":
        raise Unsupported("character class expected: %r" % pat)
    s = pat[1:-1]
    items, i = [], 0
    while i < len(s):
        ch = s[i]
        if ch == "\\":
            if s[i + 1:i + 2] == "x":
                hx = s[i + 2:i + 4]
                if len(hx) != 2 or any(c not in "0123456789abcdefABCDEF" for c in hx):
                    raise Unsupported("bad \\x escape in %r" % pat)
                items.append(("c", int(hx, 16)))
                i += 4
            elif s[i + 1:i + 2] == "-":
                items.append(("c", ord("-")))
                i += 2
            else:
                raise Unsupported("escape %r in %r" % (s[i:i + 2], pat))
        elif ch == "-":
            items.append(("dash", None))
            i += 1
        elif ch in "[]":
            raise Unsupported("unescaped %r inside class %r" % (ch, pat))
        elif 32 <= ord(ch) < 127:
            items.append(("c", ord(ch)))
            i += 1
        else:
            raise Unsupported("non-ASCII literal in class %r" % pat)
    ranges, j = [], 0
    while j < len(items):
        kind, v = items[j]
        if kind == "dash":
            raise Unsupported("dangling '-' in class %r (escape it)" % pat)
        if j + 2 < len(items) and items[j + 1][0] == "dash" and items[j + 2][0] == "c":
            hi = items[j + 2][1]
            if hi < v:
                raise Unsupported("reversed range in %r" % pat)
            ranges.append((v, hi))
            j += 3
        elif j + 1 < len(items) and items[j + 1][0] == "dash":
            raise Unsupported("dangling '-' in class %r" % pat)
        else:
            ranges.append((v, v))
            j += 1
    return sorted(ranges)


def granges(rs):
    return "[" + "; ".join("(%d%%N, %d%%N)" % r for r in rs) + "]"


EXPECT = {
    "field_vchar": "(?:{VCHAR}|{obs_text})",
    "field_value": "|{field_vchar}|{field_vchar}(?:{field_vchar}| |\\t)*{field_vchar}",
    "token": "{tchar}+",
    "field_name": "=token",
}


def check_add_uses(tree):
    """HTTPHeaders.add must validate with _ABNF.field_name.fullmatch(name) and _ABNF.field_value.fullmatch(to_unicode(value))"""
    cs = [n for n in tree.body if isinstance(n, ast.ClassDef) and n.name == "HTTPHeaders"]
    if len(cs) != 1:
        raise Unsupported("class HTTPHeaders")
    fs = [n for n in cs[0].body if isinstance(n, ast.FunctionDef) and n.name == "add"]
    if len(fs) != 1:
        raise Unsupported("HTTPHeaders.add")
    calls = set()
    for n in ast.walk(fs[0]):
        if (isinstance(n, ast.Call) and isinstance(n.func, ast.Attribute) and isinstance(n.func.value, ast.Attribute)
                and isinstance(n.func.value.value, ast.Name) and n.func.value.value.id == "_ABNF"):
            calls.add((n.func.value.attr, n.func.attr, ast.dump(n.args[0]) if len(n.args) == 1 else "?"))
    want = {("field_name", "fullmatch", ast.dump(ast.parse("name", mode="eval").body)),
            ("field_value", "fullmatch", ast.dump(ast.parse("to_unicode(value)", mode="eval").body))}
    if calls != want:
        raise Unsupported("HTTPHeaders.add validates with %r" % sorted(calls))


def translate(src):
    tree = ast.parse(src)
    out = [tr_normalize(tree)]
    ws = module_const(tree, "HTTP_WHITESPACE")
    if not (isinstance(ws, ast.Constant) and isinstance(ws.value, str) and ws.value and all(ord(c) < 128 for c in ws.value)):
        raise Unsupported("HTTP_WHITESPACE")
    out.append("Definition src_ws : list N := [%s]." % "; ".join("%d%%N" % ord(c) for c in ws.value))
    attrs = abnf_attrs(tree)
    for name in ("tchar", "VCHAR", "obs_text") + tuple(EXPECT):
        if name not in attrs:
            raise Unsupported("_ABNF.%s missing" % name)
    for name, want in EXPECT.items():
        got = template(attrs[name])
        if got != want:
            raise Unsupported("_ABNF.%s is %r, expected the shape %r" % (name, got, want))
    check_add_uses(tree)
    for name, gname in (("tchar", "src_tchar_ranges"), ("VCHAR", "src_vchar_ranges"), ("obs_text", "src_obs_ranges")):
        pat = template(attrs[name])
        if "{" in pat:
            raise Unsupported("_ABNF.%s is not a plain class" % name)
        out.append("Definition %s : list (N * N) := %s." % (gname, granges(parse_class(pat))))
    # the two extra alternatives inside field_value: ' ' and the regex escape \t
    out.append("Definition src_fv_extra : list N := [32%N; 9%N].")
    return "\n".join(out) + "\n"


HEADER = ("(* GENERATED by translators/c06_src.py from tornado/httputil.py (_normalize_header, HTTP_WHITESPACE, _ABNF) -- do not edit *)\n"
          "From Coq Require Import List NArith Bool.\nImport ListNotations.\nFrom TV Require Import C06.Model.\n"
          "Local Open Scope N_scope.\n"
          "Definition in_ranges (rs : list (N * N)) (c : N) : bool :=\n"
          "  existsb (fun r => (fst r <=? c) && (c <=? snd r)) rs.\n")


def emit(repo, out_path):
    src = open(os.path.join(repo, "tornado", "httputil.py")).read()
    text = HEADER + translate(src)
    old = open(out_path).read() if os.path.exists(out_path) else None
    if old != text:
        open(out_path, "w").write(text)


if __name__ == "__main__":
    repo = sys.argv[1] if len(sys.argv) > 1 else "/repo"
    print(HEADER + translate(open(os.path.join(repo, "tornado", "httputil.py")).read()))
