#!/venv/bin/python
"""Fail-closed translator for C29: reads class GZipContentEncoding of tornado/web.py with the `ast`
module and emits coq/Gen/C29_src.v:

  src_content_types, src_min_length   -- the class constants CONTENT_TYPES, MIN_LENGTH
  src_init                            -- __init__: the Accept-Encoding test
  src_compressible                    -- _compressible_type, expression by expression
  src_vary_step                       -- the Vary block at the top of transform_first_chunk
  src_ctype                           -- the `ctype = ...` statement
  src_decision                        -- the `self._gzipping = (...)` expression of transform_first_chunk

Only the statement / expression shapes handled below are accepted; anything else raises Unsupported
(the check then reports a broken obligation).  The primitives used by the output (b, is_prefix,
has_sub, beqb, hget, hmem, hset, before_semi) are defined in coq/C29/Model.v; coq/Gen/C29_equiv.v
proves the generated definitions equal to the hand-written model's."""
import ast
import os
import sys


class Unsupported(Exception):
    pass


def dump(n):
    return ast.dump(n)[:200]


def gstr(s):
    if not isinstance(s, str) or not all(32 <= ord(c) < 127 and c != '"' for c in s):
        raise Unsupported("string constant %r" % (s,))
    return '(b "%s")' % s


def const_str(n):
    if isinstance(n, ast.Constant) and isinstance(n.value, str):
        return n.value
    raise Unsupported("string constant expected: " + dump(n))


def const_nat(n, limit=5000):
    if isinstance(n, ast.Constant) and type(n.value) is int and 0 <= n.value < limit:
        return n.value
    raise Unsupported("small non-negative int expected: " + dump(n))


def is_name(n, name):
    return isinstance(n, ast.Name) and n.id == name


def is_self_attr(n, attr):
    return isinstance(n, ast.Attribute) and is_name(n.value, "self") and n.attr == attr


def strip_doc(body):
    if body and isinstance(body[0], ast.Expr) and isinstance(body[0].value, ast.Constant) and isinstance(body[0].value.value, str):
        return body[1:]
    return body


def get_class(tree, name):
    cs = [n for n in tree.body if isinstance(n, ast.ClassDef) and n.name == name]
    if len(cs) != 1:
        raise Unsupported("class " + name)
    return cs[0]


def get_method(cls, name):
    fs = [n for n in cls.body if isinstance(n, ast.FunctionDef) and n.name == name]
    if len(fs) != 1:
        raise Unsupported("method " + name)
    return fs[0]


def class_const(cls, name):
    vs = [n for n in cls.body if isinstance(n, ast.Assign) and len(n.targets) == 1 and is_name(n.targets[0], name)]
    if len(vs) != 1:
        raise Unsupported("class constant " + name)
    return vs[0].value


def args_of(fn, names):
    got = [a.arg for a in fn.args.args]
    if got != names or fn.args.vararg or fn.args.kwarg or fn.args.kwonlyargs or fn.args.defaults:
        raise Unsupported("%s%r, expected %r" % (fn.name, got, names))


def headers_get(n, var):
    """<var>.get("Name", "")  ->  header name"""
    if (isinstance(n, ast.Call) and isinstance(n.func, ast.Attribute) and n.func.attr == "get" and not n.keywords
            and len(n.args) == 2 and const_str(n.args[1]) == ""):
        v = n.func.value
        ok = is_name(v, var) if "." not in var else (
            isinstance(v, ast.Attribute) and v.attr == var.split(".")[1] and is_name(v.value, var.split(".")[0]))
        if ok:
            return const_str(n.args[0])
    raise Unsupported("%s.get(NAME, \"\") expected: %s" % (var, dump(n)))


def get_or_empty(name, h="h"):
    return "(match hget %s %s with Some v => v | None => b \"\" end)" % (gstr(name), h)


# ---------------------------------------------------------------- __init__
def tr_init(fn):
    args_of(fn, ["self", "request"])
    body = strip_doc(fn.body)
    if len(body) != 1 or not (isinstance(body[0], ast.Assign) and len(body[0].targets) == 1 and is_self_attr(body[0].targets[0], "_gzipping")):
        raise Unsupported("__init__ body")
    e = body[0].value
    if not (isinstance(e, ast.Compare) and len(e.ops) == 1 and isinstance(e.ops[0], ast.In)):
        raise Unsupported("__init__: NEEDLE in HAYSTACK expected: " + dump(e))
    needle = const_str(e.left)
    if headers_get(e.comparators[0], "request.headers") != "Accept-Encoding":
        raise Unsupported("__init__: Accept-Encoding expected")
    return ("Definition src_init (ae : option bytes) : bool :=\n"
            "  has_sub %s (match ae with Some v => v | None => b \"\" end).\n" % gstr(needle))


# ---------------------------------------------------------------- _compressible_type
def tr_ctype_expr(e):
    if isinstance(e, ast.BoolOp):
        op = " || " if isinstance(e.op, ast.Or) else " && "
        return "(" + op.join(tr_ctype_expr(v) for v in e.values) + ")"
    if isinstance(e, ast.UnaryOp) and isinstance(e.op, ast.Not):
        return "(negb %s)" % tr_ctype_expr(e.operand)
    if (isinstance(e, ast.Call) and isinstance(e.func, ast.Attribute) and e.func.attr == "startswith"
            and is_name(e.func.value, "ctype") and len(e.args) == 1 and not e.keywords):
        return "(is_prefix %s ctype)" % gstr(const_str(e.args[0]))
    if (isinstance(e, ast.Compare) and len(e.ops) == 1 and isinstance(e.ops[0], (ast.In, ast.NotIn)) and is_name(e.left, "ctype")
            and is_self_attr(e.comparators[0], "CONTENT_TYPES")):
        r = "(existsb (beqb ctype) src_content_types)"
        return r if isinstance(e.ops[0], ast.In) else "(negb %s)" % r
    if isinstance(e, ast.Compare) and len(e.ops) == 1 and isinstance(e.ops[0], ast.Eq) and is_name(e.left, "ctype"):
        return "(beqb ctype %s)" % gstr(const_str(e.comparators[0]))
    raise Unsupported("_compressible_type expression: " + dump(e))


def tr_compressible(fn):
    args_of(fn, ["self", "ctype"])
    body = strip_doc(fn.body)
    if len(body) != 1 or not isinstance(body[0], ast.Return) or body[0].value is None:
        raise Unsupported("_compressible_type body")
    return "Definition src_compressible (ctype : bytes) : bool :=\n  %s.\n" % tr_ctype_expr(body[0].value)


# ---------------------------------------------------------------- transform_first_chunk
def tr_vary(stmt):
    """if NAME in headers: headers[NAME] += S1  else: headers[NAME] = S2"""
    if not (isinstance(stmt, ast.If) and isinstance(stmt.test, ast.Compare) and len(stmt.test.ops) == 1
            and isinstance(stmt.test.ops[0], ast.In) and is_name(stmt.test.comparators[0], "headers")
            and len(stmt.body) == 1 and len(stmt.orelse) == 1):
        raise Unsupported("Vary block: " + dump(stmt))
    name = const_str(stmt.test.left)
    a, o = stmt.body[0], stmt.orelse[0]

    def target_ok(t):
        return isinstance(t, ast.Subscript) and is_name(t.value, "headers") and const_str(t.slice) == name
    if not (isinstance(a, ast.AugAssign) and isinstance(a.op, ast.Add) and target_ok(a.target)):
        raise Unsupported("Vary += : " + dump(a))
    if not (isinstance(o, ast.Assign) and len(o.targets) == 1 and target_ok(o.targets[0])):
        raise Unsupported("Vary = : " + dump(o))
    return ("Definition src_vary_step (h : hdrs) : hdrs :=\n"
            "  match hget %s h with\n  | Some v => hset %s (v ++ %s) h\n  | None => hset %s %s h\n  end.\n"
            % (gstr(name), gstr(name), gstr(const_str(a.value)), gstr(name), gstr(const_str(o.value))))


def tr_ctype_stmt(stmt):
    """ctype = _unicode(headers.get("Content-Type", "")).split(";")[0]"""
    if not (isinstance(stmt, ast.Assign) and len(stmt.targets) == 1 and is_name(stmt.targets[0], "ctype")):
        raise Unsupported("ctype assignment: " + dump(stmt))
    e = stmt.value
    if not (isinstance(e, ast.Subscript) and const_nat(e.slice) == 0 and isinstance(e.value, ast.Call)
            and isinstance(e.value.func, ast.Attribute) and e.value.func.attr == "split" and len(e.value.args) == 1
            and not e.value.keywords and const_str(e.value.args[0]) == ";"):
        raise Unsupported("ctype: X.split(\";\")[0] expected: " + dump(e))
    inner = e.value.func.value
    if not (isinstance(inner, ast.Call) and is_name(inner.func, "_unicode") and len(inner.args) == 1 and not inner.keywords):
        raise Unsupported("ctype: _unicode(...) expected: " + dump(inner))
    name = headers_get(inner.args[0], "headers")
    return "Definition src_ctype (h : hdrs) : bytes :=\n  before_semi %s.\n" % get_or_empty(name)


NATCMP = {ast.GtE: "(%(r)s <=? %(l)s)%%nat", ast.Gt: "(%(r)s <? %(l)s)%%nat", ast.LtE: "(%(l)s <=? %(r)s)%%nat",
          ast.Lt: "(%(l)s <? %(r)s)%%nat", ast.Eq: "(%(l)s =? %(r)s)%%nat"}
NCMP = {ast.LtE: "(%s <=? %s)", ast.Lt: "(%s <? %s)", ast.GtE: "(%s >=? %s)", ast.Gt: "(%s >? %s)", ast.Eq: "(%s =? %s)"}


def tr_n(e):
    if is_name(e, "status_code"):
        return "status"
    return "%d" % const_nat(e, 1000)


def tr_nat(e):
    if isinstance(e, ast.Call) and is_name(e.func, "len") and len(e.args) == 1 and is_name(e.args[0], "chunk") and not e.keywords:
        return "(length chunk)"
    if is_self_attr(e, "MIN_LENGTH"):
        return "src_min_length"
    raise Unsupported("length operand: " + dump(e))


def tr_dec(e):
    if isinstance(e, ast.BoolOp):
        op = " || " if isinstance(e.op, ast.Or) else " && "
        return "(" + op.join(tr_dec(v) for v in e.values) + ")"
    if isinstance(e, ast.UnaryOp) and isinstance(e.op, ast.Not):
        return "(negb %s)" % tr_dec(e.operand)
    if is_name(e, "finishing"):
        return "finishing"
    if (isinstance(e, ast.Call) and is_self_attr(e.func, "_compressible_type") and len(e.args) == 1
            and is_name(e.args[0], "ctype") and not e.keywords):
        return "(src_compressible (src_ctype h))"
    if isinstance(e, ast.Compare):
        if len(e.ops) == 1 and isinstance(e.ops[0], (ast.In, ast.NotIn)):
            c = e.comparators[0]
            if is_name(c, "headers"):
                r = "(hmem %s h)" % gstr(const_str(e.left))
            elif is_name(e.left, "status_code") and isinstance(c, (ast.Tuple, ast.List)) and c.elts:
                r = "(existsb (N.eqb status) [%s])" % "; ".join("%d" % const_nat(x, 1000) for x in c.elts)
            else:
                raise Unsupported("membership: " + dump(e))
            return r if isinstance(e.ops[0], ast.In) else "(negb %s)" % r
        operands = [e.left] + list(e.comparators)
        if any(is_name(x, "status_code") for x in operands):
            parts = []
            for l, op, r in zip(operands, e.ops, operands[1:]):
                if type(op) not in NCMP:
                    raise Unsupported("comparison: " + dump(e))
                parts.append(NCMP[type(op)] % (tr_n(l), tr_n(r)))
            return "(" + " && ".join(parts) + ")"
        if len(e.ops) == 1 and type(e.ops[0]) in NATCMP:
            return NATCMP[type(e.ops[0])] % {"l": tr_nat(e.left), "r": tr_nat(e.comparators[0])}
    raise Unsupported("decision expression: " + dump(e))


def tr_first_chunk(fn):
    args_of(fn, ["self", "status_code", "headers", "chunk", "finishing"])
    body = strip_doc(fn.body)
    if len(body) < 2:
        raise Unsupported("transform_first_chunk body")
    vary = tr_vary(body[0])
    st = body[1]
    if not (isinstance(st, ast.If) and is_self_attr(st.test, "_gzipping") and not st.orelse and len(st.body) == 2):
        raise Unsupported("`if self._gzipping:` block: " + dump(st))
    ctype = tr_ctype_stmt(st.body[0])
    a = st.body[1]
    if not (isinstance(a, ast.Assign) and len(a.targets) == 1 and is_self_attr(a.targets[0], "_gzipping")):
        raise Unsupported("decision assignment: " + dump(a))
    dec = ("Definition src_decision (h : hdrs) (status : N) (chunk : bytes) (finishing : bool) : bool :=\n  %s.\n" % tr_dec(a.value))
    # the statement after the decision must be the `if self._gzipping:` that starts compressing
    if len(body) < 3 or not (isinstance(body[2], ast.If) and is_self_attr(body[2].test, "_gzipping")):
        raise Unsupported("statement after the decision")
    return vary, ctype, dec


def emit(repo, out_path):
    src = open(os.path.join(repo, "tornado", "web.py")).read()
    cls = get_class(ast.parse(src), "GZipContentEncoding")
    cts = class_const(cls, "CONTENT_TYPES")
    if not isinstance(cts, ast.Set) or not cts.elts:
        raise Unsupported("CONTENT_TYPES must be a set display")
    types = [const_str(x) for x in cts.elts]
    minlen = const_nat(class_const(cls, "MIN_LENGTH"))
    init = tr_init(get_method(cls, "__init__"))
    comp = tr_compressible(get_method(cls, "_compressible_type"))
    vary, ctype, dec = tr_first_chunk(get_method(cls, "transform_first_chunk"))
    lines = [
        "(* GENERATED by translators/c29_src.py from tornado/web.py (class GZipContentEncoding) - do not edit. *)",
        "From Coq Require Import String.",
        "From Coq Require Import List NArith Bool Arith.",
        "Import ListNotations.",
        "From TV Require Import C29.Model.",
        "Local Open Scope N_scope.",
        "",
        "Definition src_content_types : list bytes :=\n  [ %s ].\n" % ";\n    ".join(gstr(t) for t in types),
        "Definition src_min_length : nat := %d.\n" % minlen,
        init, comp, vary, ctype, dec,
    ]
    txt = "\n".join(lines)
    old = open(out_path).read() if os.path.exists(out_path) else None
    if old != txt:
        open(out_path, "w").write(txt)


if __name__ == "__main__":
    emit(sys.argv[1] if len(sys.argv) > 1 else "/repo", sys.argv[2] if len(sys.argv) > 2 else "/dev/stdout")
