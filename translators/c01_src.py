#!/venv/bin/python
"""Fail-closed translator for C01/C04: reads tornado/http1connection.py with the `ast` module
and emits coq/Gen/C01_src.v, a description of the constants, comparison operators and
accumulation forms on which the request-framing and size-limit model (coq/C01/Model.v,
coq/C04/Model.v) depends:

  DIGITS / HEXDIGITS patterns and the shape of parse_int / parse_hex_int
  the header terminator regex and its max_bytes argument (_read_message)
  the chunk-size line delimiter, its 64-byte limit, the [:-2] slice, read_bytes(2) and the
    CRLF comparisons, `total_size += chunk_len`, `total_size > self._max_body_size`
  `content_length > self._max_body_size` (_read_body)
  how HTTP1Connection.__init__ treats max_body_size=None (is-not-None test vs `or`)
  `headers["Transfer-Encoding"].lower() == "chunked"` and the CL+TE check
  `_decompressed_body_size += len(decompressed)` and its `>` check (gzip delegate)

Every item must be found exactly once in exactly the expected syntactic shape; anything else
raises Unsupported (the check then reports a broken obligation)."""
import ast
import os
import sys


class Unsupported(Exception):
    pass


def one(xs, what):
    xs = list(xs)
    if len(xs) != 1:
        raise Unsupported("%s: expected exactly one, found %d" % (what, len(xs)))
    return xs[0]


def func(tree_or_cls, name):
    return one([n for n in tree_or_cls.body if isinstance(n, (ast.FunctionDef, ast.AsyncFunctionDef)) and n.name == name], "def " + name)


def cls(tree, name):
    return one([n for n in tree.body if isinstance(n, ast.ClassDef) and n.name == name], "class " + name)


def U(n):
    return ast.unparse(n)


CMP = {ast.Gt: "CmpGt", ast.GtE: "CmpGe", ast.Lt: "CmpLt", ast.LtE: "CmpLe", ast.Eq: "CmpEq", ast.NotEq: "CmpNe"}


def cmpop(node, what):
    if not (isinstance(node, ast.Compare) and len(node.ops) == 1 and type(node.ops[0]) in CMP):
        raise Unsupported(what + ": comparison shape " + U(node))
    return CMP[type(node.ops[0])]


def gstring(s):
    if not isinstance(s, str) or not all(32 <= ord(c) < 127 and c != '"' for c in s):
        raise Unsupported("string constant %r" % (s,))
    return '"%s"%%string' % s


def gbytes(b):
    if not isinstance(b, bytes):
        raise Unsupported("bytes constant expected: %r" % (b,))
    return "[" + "; ".join("%d" % x for x in b) + "]%N" if b else "(@nil N)"


def gnat(n):
    if type(n) is not int or not (0 <= n < 100000):
        raise Unsupported("small int expected: %r" % (n,))
    return "%d%%nat" % n


def module_regex(tree, name):
    a = one([n for n in tree.body if isinstance(n, ast.Assign) and len(n.targets) == 1 and isinstance(n.targets[0], ast.Name)
             and n.targets[0].id == name], "module constant " + name)
    v = a.value
    if not (isinstance(v, ast.Call) and U(v.func) == "re.compile" and len(v.args) == 1 and not v.keywords
            and isinstance(v.args[0], ast.Constant) and isinstance(v.args[0].value, str)):
        raise Unsupported("%s is not re.compile(<str>)" % name)
    return v.args[0].value


def parse_fn(tree, fname, const, base):
    f = func(tree, fname)
    body = [s for s in f.body if not (isinstance(s, ast.Expr) and isinstance(s.value, ast.Constant))]
    if len(body) != 2:
        raise Unsupported(fname + ": body shape")
    test = "%s.fullmatch(s) is None" % const
    if not (isinstance(body[0], ast.If) and U(body[0].test) == test and not body[0].orelse and len(body[0].body) == 1
            and isinstance(body[0].body[0], ast.Raise) and U(body[0].body[0].exc).startswith("ValueError(")):
        raise Unsupported(fname + ": guard is not `if %s: raise ValueError`" % test)
    want = "int(s)" if base == 10 else "int(s, %d)" % base
    if not (isinstance(body[1], ast.Return) and U(body[1].value) == want):
        raise Unsupported(fname + ": return is not " + want)
    return True


def calls(fn, attr):
    return [n for n in ast.walk(fn) if isinstance(n, ast.Call) and isinstance(n.func, ast.Attribute) and n.func.attr == attr]


def translate(src):
    tree = ast.parse(src)
    out = {}
    out["digits"] = module_regex(tree, "DIGITS")
    out["hexdigits"] = module_regex(tree, "HEXDIGITS")
    parse_fn(tree, "parse_int", "DIGITS", 10)
    parse_fn(tree, "parse_hex_int", "HEXDIGITS", 16)

    conn = cls(tree, "HTTP1Connection")
    # --- _read_message: header block read
    rm = func(conn, "_read_message")
    c = one(calls(rm, "read_until_regex"), "read_until_regex in _read_message")
    if not (U(c.func) == "self.stream.read_until_regex" and len(c.args) == 1 and isinstance(c.args[0], ast.Constant)
            and len(c.keywords) == 1 and c.keywords[0].arg == "max_bytes" and U(c.keywords[0].value) == "self.params.max_header_size"):
        raise Unsupported("read_until_regex call shape: " + U(c))
    out["terminator"] = c.args[0].value
    # --- _read_chunked_body
    ch = func(conn, "_read_chunked_body")
    c = one(calls(ch, "read_until"), "read_until in _read_chunked_body")
    if not (U(c.func) == "self.stream.read_until" and len(c.args) == 1 and isinstance(c.args[0], ast.Constant)
            and len(c.keywords) == 1 and c.keywords[0].arg == "max_bytes" and isinstance(c.keywords[0].value, ast.Constant)):
        raise Unsupported("read_until call shape: " + U(c))
    out["chunk_delim"] = c.args[0].value
    out["chunk_line_max"] = c.keywords[0].value.value
    sl = one([n for n in ast.walk(ch) if isinstance(n, ast.Subscript) and U(n.value) == "chunk_len_str"], "chunk_len_str slice")
    if U(sl.slice) != ":-2":
        raise Unsupported("chunk_len_str slice: " + U(sl))
    out["chunk_line_strip"] = 2
    p = one([n for n in ast.walk(ch) if isinstance(n, ast.Call) and U(n.func) == "parse_hex_int"], "parse_hex_int call")
    if U(p) != "parse_hex_int(native_str(chunk_len_str[:-2]))":
        raise Unsupported("parse_hex_int argument: " + U(p))
    aug = one([n for n in ast.walk(ch) if isinstance(n, ast.AugAssign) and U(n.target) == "total_size"], "total_size update")
    if not (isinstance(aug.op, ast.Add) and U(aug.value) == "chunk_len"):
        raise Unsupported("total_size update: " + U(aug))
    plain = [n for n in ast.walk(ch) if isinstance(n, ast.Assign) and any(U(t) == "total_size" for t in n.targets)]
    if [U(n) for n in plain] != ["total_size = 0"]:
        raise Unsupported("assignments to total_size: %r" % [U(n) for n in plain])
    out["chunk_total_cumulative"] = True
    cm = one([n for n in ast.walk(ch) if isinstance(n, ast.Compare) and U(n.left) == "total_size"], "total_size comparison")
    if U(cm.comparators[0]) != "self._max_body_size":
        raise Unsupported("total_size compared with " + U(cm.comparators[0]))
    out["chunk_limit_cmp"] = cmpop(cm, "chunk limit")
    rb = [U(n) for n in calls(ch, "read_bytes") if not n.keywords]
    if rb != ["self.stream.read_bytes(2)", "self.stream.read_bytes(2)"]:
        raise Unsupported("terminator reads: %r" % rb)
    out["chunk_terminator_len"] = 2
    tc = [n for n in ast.walk(ch) if isinstance(n, ast.Compare) and U(n.left) == "crlf"]
    if len(tc) != 2 or any(cmpop(n, "crlf test") != "CmpNe" or not isinstance(n.comparators[0], ast.Constant) for n in tc):
        raise Unsupported("crlf comparisons")
    if len({n.comparators[0].value for n in tc}) != 1:
        raise Unsupported("crlf comparisons differ")
    out["chunk_terminator"] = tc[0].comparators[0].value
    z = one([n for n in ast.walk(ch) if isinstance(n, ast.Compare) and U(n.left) == "chunk_len"], "chunk_len == 0 test")
    if U(z) != "chunk_len == 0":
        raise Unsupported("last-chunk test: " + U(z))
    # --- _read_body
    rbd = func(conn, "_read_body")
    cm = one([n for n in ast.walk(rbd) if isinstance(n, ast.Compare) and any(U(x) == "self._max_body_size" for x in n.comparators)],
             "Content-Length limit comparison")
    if U(cm.left) != "cast(int, content_length)":
        raise Unsupported("Content-Length limit: " + U(cm))
    out["cl_limit_cmp"] = cmpop(cm, "Content-Length limit")
    # --- __init__: unset max_body_size
    init = func(conn, "__init__")
    a = one([n for n in ast.walk(init) if isinstance(n, ast.Assign) and [U(t) for t in n.targets] == ["self._max_body_size"]],
            "self._max_body_size assignment")
    v = a.value
    if (isinstance(v, ast.IfExp) and U(v.test) == "self.params.max_body_size is not None"
            and U(v.body) == "self.params.max_body_size" and U(v.orelse) == "self.stream.max_buffer_size"):
        out["unset"] = "UnsetIsNone"
    elif isinstance(v, ast.BoolOp) and isinstance(v.op, ast.Or) and [U(x) for x in v.values] == ["self.params.max_body_size", "self.stream.max_buffer_size"]:
        out["unset"] = "UnsetFalsy"
    else:
        raise Unsupported("self._max_body_size = " + U(v))
    others = [U(n) for n in ast.walk(conn) if isinstance(n, ast.Assign) and any(U(t) == "self._max_body_size" for t in n.targets)]
    if sorted(others) != sorted([U(a), "self._max_body_size = max_body_size"]):
        raise Unsupported("assignments to self._max_body_size: %r" % others)
    # --- is_transfer_encoding_chunked
    te = func(tree, "is_transfer_encoding_chunked")
    cm = one([n for n in ast.walk(te) if isinstance(n, ast.Compare) and "lower()" in U(n.left)], "TE comparison")
    if U(cm.left) != "headers['Transfer-Encoding'].lower()" or not isinstance(cm.comparators[0], ast.Constant):
        raise Unsupported("TE comparison: " + U(cm))
    out["te_cmp"] = cmpop(cm, "TE comparison")
    out["te_literal"] = cm.comparators[0].value
    ifs = [n for n in te.body if isinstance(n, ast.If)]
    tests = [U(n.test) for n in ifs]
    if tests != ["'Transfer-Encoding' not in headers", "'Content-Length' in headers", U(cm)]:
        raise Unsupported("is_transfer_encoding_chunked tests: %r" % tests)
    if not (len(ifs[1].body) == 1 and isinstance(ifs[1].body[0], ast.Raise) and U(ifs[1].body[0].exc).startswith("httputil.HTTPInputError(")):
        raise Unsupported("CL+TE branch does not raise HTTPInputError")
    if not (isinstance(te.body[-1], ast.Raise) and U(te.body[-1].exc).startswith("httputil.HTTPInputError(")):
        raise Unsupported("unsupported Transfer-Encoding does not raise HTTPInputError")
    out["cl_and_te_rejected"] = True
    # --- gzip delegate
    gz = func(cls(tree, "_GzipMessageDelegate"), "data_received")
    aug = one([n for n in ast.walk(gz) if isinstance(n, ast.AugAssign) and U(n.target) == "self._decompressed_body_size"], "gzip size update")
    if not (isinstance(aug.op, ast.Add) and U(aug.value) == "len(decompressed)"):
        raise Unsupported("gzip size update: " + U(aug))
    out["gzip_cumulative"] = True
    cm = one([n for n in ast.walk(gz) if isinstance(n, ast.Compare) and U(n.left) == "self._decompressed_body_size"], "gzip limit comparison")
    if U(cm.comparators[0]) != "self._max_body_size":
        raise Unsupported("gzip limit compared with " + U(cm.comparators[0]))
    out["gzip_limit_cmp"] = cmpop(cm, "gzip limit")
    d = one(calls(gz, "decompress"), "decompress call")
    if U(d) != "self._decompressor.decompress(compressed_data, self._chunk_size)":
        raise Unsupported("decompress call: " + U(d))
    # --- parameters defaults
    pinit = func(cls(tree, "HTTP1ConnectionParameters"), "__init__")
    want = {"self.chunk_size": "chunk_size or 65536", "self.max_header_size": "max_header_size or 65536", "self.max_body_size": "max_body_size"}
    got = {U(n.targets[0]): U(n.value) for n in pinit.body if isinstance(n, ast.Assign) and len(n.targets) == 1}
    for k, v in want.items():
        if got.get(k) != v:
            raise Unsupported("%s = %r (expected %s)" % (k, got.get(k), v))
    out["default_header_size"] = 65536
    return out


def render(d):
    b = lambda x: "true" if x else "false"
    return ("(* GENERATED by translators/c01_src.py from tornado/http1connection.py — do not edit *)\n"
            "From Coq Require Import String.\nFrom Coq Require Import List NArith.\nImport ListNotations.\n"
            "From TV Require Import C01.SrcDesc.\n"
            "Definition c01_src : src_desc :=\n"
            "  {| sd_digits := %s; sd_hexdigits := %s; sd_terminator := %s;\n"
            "     sd_chunk_delim := %s; sd_chunk_line_max := %s; sd_chunk_line_strip := %s;\n"
            "     sd_chunk_terminator := %s; sd_chunk_terminator_len := %s;\n"
            "     sd_chunk_total_cumulative := %s; sd_chunk_limit_cmp := %s; sd_cl_limit_cmp := %s;\n"
            "     sd_unset := %s; sd_te_cmp := %s; sd_te_literal := %s; sd_cl_and_te_rejected := %s;\n"
            "     sd_gzip_cumulative := %s; sd_gzip_limit_cmp := %s; sd_default_header_size := %d%%N |}.\n"
            % (gstring(d["digits"]), gstring(d["hexdigits"]), gbytes(d["terminator"]),
               gbytes(d["chunk_delim"]), gnat(d["chunk_line_max"]), gnat(d["chunk_line_strip"]),
               gbytes(d["chunk_terminator"]), gnat(d["chunk_terminator_len"]),
               b(d["chunk_total_cumulative"]), d["chunk_limit_cmp"], d["cl_limit_cmp"],
               d["unset"], d["te_cmp"], gstring(d["te_literal"]), b(d["cl_and_te_rejected"]),
               b(d["gzip_cumulative"]), d["gzip_limit_cmp"], d["default_header_size"]))


def emit(repo, out_path):
    src = open(os.path.join(repo, "tornado", "http1connection.py")).read()
    text = render(translate(src))
    old = open(out_path).read() if os.path.exists(out_path) else None
    if old != text:
        open(out_path, "w").write(text)


if __name__ == "__main__":
    repo = sys.argv[1] if len(sys.argv) > 1 else "/repo"
    print(render(translate(open(os.path.join(repo, "tornado", "http1connection.py")).read())))
