#!/bin/bash
# tools/run_all_par.sh [tier] [jobs] — every claimed check once on /repo, J at a time; one summary line each
cd /verif
TIER=${1:-thorough}; J=${2:-4}
one() { p=$1; s=$(date +%s); out=$(./check $p --tier $TIER 2>&1); rc=$?; e=$(date +%s)
  echo "$p rc=$rc $((e-s))s $(echo "$out" | grep -v '^KNOWN-FINDING' | tail -2 | tr '\n' ' ' | cut -c1-260) known=$(echo "$out" | grep -c '^KNOWN-FINDING')"; }
export -f one; export TIER
/venv/bin/python -c "import json;print('\n'.join(c['property_id'] for c in json.load(open('MANIFEST.json'))['checks']))" | xargs -P $J -n 1 -I{} bash -c 'one {}'
