#!/bin/bash
# tools/seed_try.sh <out_dir_with_patch.diff_and_demo.py> <PROP> [tier]
# Verifies a seeded change in a scratch worktree (never touches /repo):
#  1. demo passes on /repo, 2. patch applies, 3. test suite still passes, 4. demo fails with the patch,
#  5. runs ./check PROP against the patched worktree and prints its verdict.
set -u
OUT=$1; PROP=$2; TIER=${3:-quick}
WT=/tmp/seedwt_$$
git -C /repo worktree add --detach $WT >/dev/null 2>&1 || { echo "worktree failed"; exit 2; }
trap 'git -C /repo worktree remove --force $WT >/dev/null 2>&1' EXIT
echo "== demo on unmodified /repo"; /venv/bin/python $OUT/demo.py /repo >/dev/null 2>&1; echo "exit=$?"
git -C $WT apply $OUT/patch.diff || { echo "PATCH DOES NOT APPLY"; exit 2; }
echo "== test suite with patch"; (cd $WT && PYTHONPATH=$WT /venv/bin/python -m pytest -q -p no:cacheprovider --timeout=900 tornado 2>&1 | tail -1)
echo "== demo with patch"; /venv/bin/python $OUT/demo.py $WT 2>&1 | tail -3; echo "exit=${PIPESTATUS[0]}"
echo "== ./check $PROP against patched tree"
cd /verif && VERIF_REPO=$WT ./check $PROP --tier $TIER 2>&1 | tail -4
