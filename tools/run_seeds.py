#!/venv/bin/python
"""Runs ./check <prop> against every kept seeded change (in a scratch worktree, never in /repo)
and records the verdict in seeded/<id>/meta.json.   usage: tools/run_seeds.py [id ...]"""
import json, os, re, subprocess, sys, glob
ROOT = os.path.dirname(os.path.dirname(os.path.abspath(__file__)))
ids = sys.argv[1:] or sorted(os.path.basename(p) for p in glob.glob(os.path.join(ROOT, "seeded", "*")) if os.path.isdir(p))
for sid in ids:
    d = os.path.join(ROOT, "seeded", sid)
    prop = sid.split("_")[0]
    wt = "/tmp/seedrun_%s_%d" % (sid, os.getpid())
    subprocess.run(["git", "-C", "/repo", "worktree", "add", "--detach", wt], capture_output=True)
    try:
        ap = subprocess.run(["git", "-C", wt, "apply", os.path.join(d, "patch.diff")], capture_output=True, text=True)
        if ap.returncode != 0:
            verdict = {"caught_by": "n/a", "report": "patch no longer applies to /repo HEAD: " + ap.stderr.strip()[:200]}
        else:
            demo0 = subprocess.run(["/venv/bin/python", os.path.join(d, "demo.py"), "/repo"], capture_output=True, timeout=900).returncode
            demo1 = subprocess.run(["/venv/bin/python", os.path.join(d, "demo.py"), wt], capture_output=True, timeout=900).returncode
            env = dict(os.environ, VERIF_REPO=wt)
            r = subprocess.run([os.path.join(ROOT, "check"), prop, "--tier", "quick"], capture_output=True, text=True, env=env, cwd=ROOT, timeout=3600)
            out = r.stdout
            m = re.search(r"^VIOLATION property=\S+ replay=(\S+)(.*)$", out, re.M)
            summ = re.search(r"cases=(\d+) mismatches=(\d+) checker_failures=(\d+)", out)
            if m:
                kind = "no failing input found (correspondence/proof broken)" if "no-failing-input-found" in m.group(2) else "failing input replayed"
                verdict = {"caught_by": "./check %s (quick)" % prop, "report": "VIOLATION, %s; %s" % (kind, summ.group(0) if summ else "")}
            else:
                verdict = {"caught_by": "MISSED", "report": "exit %d, no VIOLATION; %s" % (r.returncode, summ.group(0) if summ else out[-200:])}
            verdict["demo_on_repo_exit"] = demo0
            verdict["demo_on_patched_exit"] = demo1
    finally:
        subprocess.run(["git", "-C", "/repo", "worktree", "remove", "--force", wt], capture_output=True)
    mp = os.path.join(d, "meta.json")
    meta = json.load(open(mp))
    meta["verdict"] = verdict
    json.dump(meta, open(mp, "w"), indent=1)
    print(sid, verdict["caught_by"], "|", verdict["report"], flush=True)
