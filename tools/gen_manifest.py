#!/venv/bin/python
"""Regenerates /verif/MANIFEST.json from the metadata of harness/props/cXX.py."""
import importlib
import json
import os
import sys

ROOT = os.path.dirname(os.path.dirname(os.path.abspath(__file__)))
sys.path.insert(0, ROOT)
sys.path.insert(0, "/repo")
from harness import framework  # noqa

props = [json.loads(l) for l in open(os.path.join(ROOT, "properties.jsonl"))]
built = set(framework.all_props()) & set(json.load(open(os.path.join(ROOT, 'tools', 'accepted.json'))))
na_reasons = {}
p = os.path.join(ROOT, "tools", "not_applicable.json")
if os.path.exists(p):
    na_reasons = json.load(open(p))
checks, na = [], []
for pr in props:
    pid = pr["id"]
    if pid in built and pid not in na_reasons:
        mod = importlib.import_module("harness.props." + pid.lower())
        checks.append({
            "property_id": pid,
            "quick_cmd": "./check %s --tier quick" % pid,
            "thorough_cmd": "./check %s --tier thorough" % pid,
            "evidence_file": "/verif/evidence/%s.json" % pid,
            "replay_cmd_template": "./check %s --replay {path}" % pid,
            "engine": "coq-correspondence",
            "level_claimed": {"category": "proof", "text": mod.LEVEL_TEXT, "design_ref": "DESIGN.md section 7, " + pid},
            "level_note": mod.LEVEL_NOTE,
            "technique": getattr(mod, "TECHNIQUE", "Coq theorems about a Gallina model + model/implementation correspondence check (vm_compute vs /repo)"),
        })
    else:
        na.append({"property_id": pid, "reason": na_reasons.get(pid, "no check is claimed yet: the Coq model, theorems and correspondence harness for this property have not been built (planned in DESIGN.md section 7); the technique itself is applicable")})
man = {
    "version": 1,
    "setup_cmd": "./check --setup",
    "hooks": {"guard": "TORNADO_VERIF_HOOKS", "enable": "no source hooks are used: checks import /repo's working tree directly (PYTHONPATH=/repo) and drive it through public/overridable APIs",
              "baseline_off_cmd": "cd /repo && /venv/bin/python -m pytest -ra -q -p no:cacheprovider --timeout=900 --continue-on-collection-errors",
              "source_commits": [], "add_only": True},
    "engines": [{"name": "coq-correspondence", "path": "/verif/check", "serves_properties": [c["property_id"] for c in checks],
                 "kind_free_text": "Coq 8.16 theorems over hand-written / translated Gallina models (coq/), tied to /repo by a differential correspondence check evaluated with vm_compute (harness/framework.py)"}],
    "checks": checks,
    "not_applicable": na,
    "notes": "All checks run `./check <id>`; see DESIGN.md. known_findings.json lists triaged genuine defects (open findings and fix: commits).",
}
json.dump(man, open(os.path.join(ROOT, "MANIFEST.json"), "w"), indent=1)
print("claimed:", len(checks), "not claimed:", len(na))
