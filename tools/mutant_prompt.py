#!/venv/bin/python
"""Prints the prompt for an independent mutation-seeding agent (gets ONLY the property text)."""
import json, sys
pid, k = sys.argv[1], sys.argv[2]
p = {json.loads(l)["id"]: json.loads(l) for l in open("/verif/properties.jsonl")}[pid]
wt = "/tmp/mut_%s_%s" % (pid, k)
print("""You are testing a verification effort by writing a realistic BUG. Work only in your own scratch git worktree of the Tornado repository; do not look at or use anything under /verif, and never modify /repo itself.

Setup: `git -C /repo worktree add --detach %(wt)s` (Python: /venv/bin/python; run code against your worktree with `cd %(wt)s && PYTHONPATH=%(wt)s /venv/bin/python ...`; every shell call prints a harmless conda warning line first). No network.

The semantic property below should hold for Tornado. Produce ONE change to Tornado's source (under %(wt)s/tornado/, not the tests) that BREAKS this property while (a) the code still imports/compiles, (b) the existing test suite still passes: run `cd %(wt)s && PYTHONPATH=%(wt)s /venv/bin/python -m pytest -q -p no:cacheprovider --timeout=900 tornado` (about 30 s; 1171 passed expected) and confirm, and (c) the change looks like a plausible mistake or "optimisation"/refactoring a developer could make (a few lines), not sabotage. Prefer a bug that needs something specific to manifest — a particular interleaving or ordering of events, a fault or close at a particular point, a multi-step sequence of operations, an unusual boundary input, or two cooperating sites that each look fine alone — rather than one that ordinary use would expose at once. %(extra)s

Also write a demonstration: a small standalone Python program %(wt)s_out/demo.py (create the directory %(wt)s_out) that takes the path of a Tornado checkout as argv[1], puts it first on sys.path, exercises the public behaviour, and exits 0 when the property holds on that input and exits 1 (printing what went wrong) when it is violated. It must exit 1 against your modified worktree and exit 0 against the unmodified /repo. Run both and confirm.

Never use `git stash` (the stash is shared by all worktrees of /repo and other agents are working in their own worktrees right now). Write `git -C %(wt)s diff > %(wt)s_out/patch.diff` and %(wt)s_out/meta.json with keys: property (id), summary (one sentence: what the bug is), needs (what specific input/sequence/timing is required for it to manifest), ran (the commands you ran and their outcomes). Finally remove the worktree: `git -C /repo worktree remove --force %(wt)s` (keep %(wt)s_out). Your final message: the summary, the needs, and confirmation of the three checks (tests pass, demo fails with patch, demo passes on /repo).

PROPERTY %(pid)s — %(title)s
Statement: %(statement)s
Quantified over: %(q)s
Relevant files: %(files)s
Mechanisms meant to make it hold: %(mech)s
""" % dict(wt=wt, pid=pid, title=p["title"], statement=p["statement"], q=p["quantifier"]["text"],
           files=", ".join(p["anchors"]["files"]), mech="; ".join("%s (%s)" % (m.get("name"), m.get("where")) for m in p["anchors"]["mechanism"]),
           extra=(sys.argv[3] if len(sys.argv) > 3 else "")))
