#!/bin/bash
# tools/run_all.sh [tier]  — every claimed check once on /repo, summary lines to stdout
cd /verif
TIER=${1:-quick}
for p in $(/venv/bin/python -c "import json;print(' '.join(c['property_id'] for c in json.load(open('MANIFEST.json'))['checks']))"); do
  s=$(date +%s)
  out=$(./check $p --tier $TIER 2>&1)
  rc=$?
  e=$(date +%s)
  echo "$p rc=$rc $((e-s))s $(echo "$out" | grep -v '^KNOWN-FINDING' | tail -2 | tr '\n' ' ' | cut -c1-260) known=$(echo "$out" | grep -c '^KNOWN-FINDING')"
done
