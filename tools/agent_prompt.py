#!/venv/bin/python
"""Prints the builder-agent prompt for the given property ids."""
import json, re, sys
ids = sys.argv[1:]
props = {json.loads(l)["id"]: json.loads(l) for l in open("/verif/properties.jsonl")}
design = open("/verif/DESIGN.md").read()
out = []
out.append("""You are building machine-checked (Coq 8.16) verification machinery for %s of the Tornado web framework, inside an existing framework at /verif (sandbox, no network). Tornado's source is at /repo (Python; run it with /venv/bin/python, PYTHONPATH=/repo).

FIRST read, in this order: /verif/BUILDING.md (the recipe and hard rules — follow it exactly), the worked example (/verif/coq/C18/*.v, /verif/harness/props/c18.py), /verif/harness/framework.py (skim) and /verif/harness/gallina.py. Then read the relevant Tornado source carefully. /repo already contains small `fix:` commits for known defects (see /verif/known_findings.json); model the code as it is NOW. The design notes below predate those fixes: where they say a statement is 'refuted today', the defect has since been fixed in /repo, so prove that statement at full strength against the fixed code and keep the old witness as a corpus case.

Your deliverables, per property: coq/Cxx/Model.v, Run.v, Proofs.v (may be several files), Property.v, NOTES.md and harness/props/cxx.py, such that `cd /verif && ./check Cxx` and `./check Cxx --tier thorough` exit 0 on the unchanged /repo (zero correspondence mismatches, zero checker failures, all proofs closed, `Print Assumptions` = Closed under the global context) and report VIOLATION when the relevant Tornado code is mutated so that the property breaks.

What matters most, in order: (1) a FAITHFUL executable Gallina model of the real mechanism, tied to the code by the correspondence check with a good generator (structured mostly-valid inputs + malformed stream, boundary values, small-scope exhaustive enumeration in the thorough tier); (2) REAL theorems, universally quantified (all inputs / all operation sequences / all event orders, by induction / invariants / refinement), stating the property at full strength as in the design notes below — not samples, not restatements, no vacuous hypotheses; (3) honesty: anything you could not prove is named `..._partial` or listed in NOTES.md; never weaken a statement silently, never declare axioms, never use Admitted. A smaller model with fully proved strong theorems beats a big model with no proofs, but the model must cover the behaviour the property talks about.

Other agents are working concurrently in /verif on OTHER properties: touch only your own files (coq/<your ids>/, harness/props/<your ids>.py, optionally new coq/Lib/<YourId>_*.v), never edit shared files, never run git commands in /verif, never run `./check --setup`, never modify /repo (for mutation testing use a scratch worktree: `git -C /repo worktree add --detach /tmp/wt_%s` then `VERIF_REPO=/tmp/wt_%s ./check Cxx`, and remove it with `git -C /repo worktree remove --force /tmp/wt_%s` when done). Use absolute paths; every shell call prints a harmless conda warning line first. Run coqc/make under `timeout`. Budget: aim to finish within about 90-120 minutes of work; get a small end-to-end version (model + Run + one theorem + harness passing ./check) working FIRST, then strengthen.

If the real code violates the property on some input (a genuine defect), do NOT hide it: keep the model faithful, prove a `..._refuted` witness, make `signature(case, obs)` return a stable short string for that failing input class, and describe the minimal reproduction in NOTES.md and in your final report (I will triage it: fix /repo or list it as a known finding). The check may then print VIOLATION for it; say so in your report.

Your final message must be a concise report: files written; the list of Property.v theorems in plain words and which are full / partial; what is modelled vs abstracted (trusted base); the generator's shape and case counts/runtime for quick and thorough; mutations tried and whether caught; suspected defects in /repo with reproductions; anything left undone.
""" % (" and ".join(ids), ids[0], ids[0], ids[0]))
for i in ids:
    p = props[i]
    out.append("=== PROPERTY %s (given, fixed text) ===\n%s\n" % (i, json.dumps(p, indent=1)))
    m = re.search(r"### %s — .*?(?=\n### C\d\d — |\n## 8\.)" % i, design, re.S)
    out.append("=== DESIGN NOTES for %s (from /verif/DESIGN.md section 7; the plan — adapt where the code demands, but keep the strength) ===\n%s\n" % (i, m.group(0) if m else "(see DESIGN.md)"))
print("\n".join(out))
