#!/venv/bin/python
"""Rewrites the generated tables of DESIGN.md (fix commits, open findings, seeded changes, per-property status)."""
import json, os, re, glob
ROOT = os.path.dirname(os.path.dirname(os.path.abspath(__file__)))
d = open(os.path.join(ROOT, "DESIGN.md")).read()
k = json.load(open(os.path.join(ROOT, "known_findings.json")))

def table_fixed():
    rows = []
    for f in k["fixed"]:
        m = re.match(r"fixed: property=(\S+) (\S+) (.*)", f)
        rows.append("| %s | `%s` | %s |" % (m.group(1), m.group(2), m.group(3).replace("|", "\\|")))
    return "| Prop | fix commit | what failed before the fix |\n|---|---|---|\n" + "\n".join(rows)

def table_open():
    rows = ["| %s | `%s` | %s |" % (f["property"], f["signature"], f["what"].replace("|", "\\|")) for f in k["findings"] if f.get("status") == "open"]
    return "| Prop | signature | what fails, and why it is recorded rather than repaired |\n|---|---|---|\n" + "\n".join(rows)

def table_seeded():
    rows = []
    for mp in sorted(glob.glob(os.path.join(ROOT, "seeded", "*", "meta.json"))):
        m = json.load(open(mp))
        sid = os.path.basename(os.path.dirname(mp))
        v = m.get("verdict", {})
        rows.append("| `seeded/%s` %s | %s | %s | %s | %s |" % (sid, str(m.get("summary", "")).replace("|", "\\|")[:300], m.get("property", sid.split("_")[0]),
                    str(m.get("needs", "")).replace("|", "\\|")[:300], v.get("caught_by", "—"), v.get("report", "not yet run")))
    return "| seeded change | property | what it needs to manifest | caught by | how reported |\n|---|---|---|---|---|\n" + "\n".join(rows)

def put(name, body):
    global d
    a, b = "<!-- BEGIN %s -->" % name, "<!-- END %s -->" % name
    assert a in d and b in d, name
    d = d[:d.index(a) + len(a)] + "\n" + body + "\n" + d[d.index(b):]

def status():
    import importlib, sys
    sys.path.insert(0, ROOT); sys.path.insert(0, "/repo")
    acc = json.load(open(os.path.join(ROOT, "tools", "accepted.json")))
    out = []
    for pid in sorted(acc):
        pv = os.path.join(ROOT, "coq", pid, "Property.v")
        txt = re.sub(r"\(\*.*?\*\)", "", open(pv).read(), flags=re.S) if os.path.exists(pv) else ""
        names = re.findall(r"^\s*(?:Theorem|Lemma|Corollary)\s+([A-Za-z_][\w']*)", txt, re.M)
        mod = importlib.import_module("harness.props." + pid.lower())
        partial = [n for n in names if n.endswith("_partial") or "_partial_" in n]
        refuted = [n for n in names if "refuted" in n]
        out.append("### %s\n* theorems in `coq/%s/Property.v` (%d): %s\n* partial: %s; refutation witnesses: %s\n* trusted/assumed: %s\n* details: `coq/%s/NOTES.md`\n"
                   % (pid, pid, len(names), ", ".join("`%s`" % n for n in names), ", ".join(partial) or "none", ", ".join(refuted) or "none",
                      getattr(mod, "LEVEL_NOTE", ""), pid))
    return "\n".join(out)

def table_translators():
    import ast as _ast
    rows = []
    for tp in sorted(glob.glob(os.path.join(ROOT, "translators", "c*_src.py"))):
        pid = os.path.basename(tp)[:3].upper()
        try:
            doc = _ast.get_docstring(_ast.parse(open(tp).read())) or ""
        except Exception:
            doc = ""
        first = " ".join(doc.split("\n\n")[0].split())[:420]
        gen = [os.path.relpath(g, ROOT) for g in sorted(glob.glob(os.path.join(ROOT, "coq", "Gen", pid + "_*.v")))]
        if pid == "C07":
            gen = ["coq/C07/SrcGen.v", "coq/C07/SrcEquiv.v"]
        rows.append("| %s | `translators/%s` | %s | %s |" % (pid, os.path.basename(tp), first.replace("|", "\\|"), ", ".join("`%s`" % g for g in gen)))
    return "| Prop | translator | what it reads (from its docstring) | generated / equivalence files |\n|---|---|---|---|\n" + "\n".join(rows)

put("TRANSLATORS", table_translators())
put("FIXED", table_fixed())
put("STATUS", status())
put("OPEN", table_open())
put("SEEDED", table_seeded())
open(os.path.join(ROOT, "DESIGN.md"), "w").write(d)
print("ok")
