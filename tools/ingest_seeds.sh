#!/bin/bash
# copies finished /tmp/mut_<id>_<k>_out directories into seeded/ and runs the checks against them
cd /verif
new=""
for d in /tmp/mut_*_out; do
  [ -f $d/patch.diff ] && [ -f $d/demo.py ] && [ -f $d/meta.json ] || continue
  id=$(basename $d | sed 's/^mut_//; s/_out$//')
  if [ ! -d seeded/$id ]; then mkdir -p seeded/$id; cp $d/patch.diff $d/demo.py $d/meta.json seeded/$id/; new="$new $id"; fi
done
[ -n "$new" ] && printf '%s\n' $new | xargs -P ${INGEST_JOBS:-4} -n 1 tools/run_seeds.py
